"""eqsim: histories of phase-equilibrium calls on PERSISTENT multi-phase streams (C03, C04).

What is simulated.  Every MultiStream owns one VLE, one LLE and one SLE solver object
(`VLECache.retrieve()`), created on first use and reused by every later call.  The solver
warm-starts from what the previous call left behind (`_T _P _V _K _y _z_last _nonzero _index`,
bubble/dew objects) and `VLE.__call__` carries recovery code (`except NoEquilibrium`, the retried
`set_PS`, bare `try/except: pass`).  BioSTEAM re-runs flashes hundreds of times on the same
stream objects inside recycle loops, interleaved with edits by other unit operations; the
repository's tests only flash fresh streams.

The world holds 3-6 persistent MultiStream objects over 2-3 property packages and several tasks
(stub unit operations: flash loops, recycle loops, campaigns that add/remove chemicals, decanter,
crystalliser, VLLE, editors).  Each step one task issues one public-API call: `ms.vle(<pair>)`
for the pairs TP PV TV PH PS TH TS Tx Px Ty Py, `ms.lle`, `ms.sle`, `ms.vlle`, composition edits
that do / do not change the set of non-zero chemicals, scaling, moving all material into one
phase row, phase-set changes, T/P writes, restart (only pickled state survives) and
`reset_cache()`.  Faults F1 (k-th evaluation of the mixture H / S / Cn model raises) and F2 (a
chosen flexsolve call raises) are armed INSIDE one equilibrium call.  A call that raises is never
a violation by itself (the properties speak about calls that return); the stream is simply read
again before the next call, so the next returning call is judged from a solver that was left
half-updated.

Oracles (one property per verdict).  C03: dense per-chemical totals before = after, no stored
negative flow, locked chemicals on the right side after a VLE.  C04: defining equations evaluated
at the result through paths that do not go through the stream's memoised properties: mixture.xH /
xS on dense rows, an in-harness Rachford-Rice (Raoult) flash, an in-harness gamma-phi successive
substitution built on thermo.Gamma objects, LiquidFugacities / GasFugacities at the result, and a
twin universe in which every flow is multiplied by k.  Numeric bounds: section MULT below, each
with its derivation and calibration numbers (DESIGN section 9).

Reading decisions (weakest demand where a statement is ambiguous).
* C03 "gas-only chemicals end up entirely in the gas phase": a VLE pools the 'l' and 'g' rows only;
  gas-only material that a caller had put into an 'L' / 's' row is not touched by the call.  The
  oracle demands: nothing of it in 'l', and nothing of it NEWLY outside 'g' (counter
  c03:gas_locked_material_in_row_outside_lg tells how often such input occurred).
* C04 speaks about the material the flash works on (the pooled l+g rows) for every clause except the
  stored T / P, which is checked for every stream that holds 1-5 volatile chemicals anywhere.
* C04 family clauses (V specification, phase boundaries, iso-fugacity) and the ideal-package clause
  are evaluated only when no phase-locked chemical is present (the statement restricts them to
  mixtures of one homologous family / to volatile chemicals); TH / TS energy clauses need the local
  slope d(H,S)/dP and are evaluated where an independent flash exists (family and ideal packages).
* H / S specifications are stored in events as a FRACTION of the all-liquid..all-vapour span of the
  stream's state at the time of the call, so every sub-sequence of a trace stays inside the domain.
* Tolerance clauses are judged differentially against a brand-new stream given the same observable
  input (see EqWorld.c04_check): the unchanged tree misses them on about 1 fresh call in 1000.
"""
import hashlib
import io
import math
import pickle
import signal
import warnings

import numpy as np

from sim import env
from sim.kernel import BaseWorld, Violation

env.import_thermosteam()
import thermosteam as tmo  # noqa: E402
from thermosteam import indexer as tmo_indexer  # noqa: E402
from thermosteam import equilibrium as tmo_eq  # noqa: E402
from sim import faults  # noqa: E402

faults.install_solver_seams()
warnings.filterwarnings('ignore')

NAME = 'eqsim'

# ====================================================================== property packages

PKG_SPECS = {
    # C1-C4 alcohols (homologous family, Dortmund activity coefficients)
    'ALC': {'vol': ['Methanol', 'Ethanol', '1-Propanol', '1-Butanol'], 'gas': ['N2'],
            'liq': ['Glycerol'], 'sol': ['Glucose'], 'family': 'alcohols', 'ideal_of': None},
    # C6-C8 alkanes and aromatics
    'HC': {'vol': ['Hexane', 'Heptane', 'Octane', 'Benzene', 'Toluene'], 'gas': ['CO2'],
           'liq': ['Glycerol'], 'sol': [], 'family': 'hydrocarbons', 'ideal_of': None},
    # water + organics (liquid-liquid splits, a solid-forming solute), non-ideal
    'MIX': {'vol': ['Water', 'Ethanol', '1-Butanol', 'Octane', 'Tetradecanol'], 'gas': ['N2', 'CO2'],
            'liq': ['Glycerol'], 'sol': ['Glucose'], 'family': None, 'ideal_of': None},
    # the ideal package over the same chemicals: Thermo.ideal()
    'IDL': {'vol': ['Water', 'Ethanol', '1-Butanol', 'Octane', 'Tetradecanol'], 'gas': ['N2', 'CO2'],
            'liq': ['Glycerol'], 'sol': ['Glucose'], 'family': None, 'ideal_of': 'MIX'},
}
# an ideal package over the SAME chemical IDs as IDL but built from other Chemical objects, two of which carry a
# user-registered vapour-pressure model (Psat.add_method): solver objects cached per process must not be shared
# between packages that merely agree in their IDs
PKG_SPECS['IDL2'] = dict(PKG_SPECS['IDL'], ideal_of=None, clone=True, psat_scale={'Ethanol': 1.25, 'Octane': 0.8})
LOCK_KW = {'gas': 'g', 'liq': 'l', 'sol': 's'}


def pkg_ids(pid):
    s = PKG_SPECS[pid]
    return s['vol'] + s['gas'] + s['liq'] + s['sol']


def pkg_lock(pid):
    s = PKG_SPECS[pid]
    return [None] * len(s['vol']) + ['g'] * len(s['gas']) + ['l'] * len(s['liq']) + ['s'] * len(s['sol'])


_cache = {}


def _chemical(cid, phase):
    key = ('chem', cid, phase)
    if key not in _cache:
        c = tmo.Chemical(cid, phase=phase) if phase else tmo.Chemical(cid)
        if cid == 'Glycerol':
            c.N_solutes = 1          # a dissolved, non-volatile solute (counts in liquid mole fractions)
        _cache[key] = c
    return _cache[key]


class EqPackage:
    """A thermosteam property package plus the harness' own tables (positions, locks)."""

    def __init__(self, pid):
        spec = PKG_SPECS[pid]
        self.pid = pid
        self.ids = pkg_ids(pid)
        self.lock = pkg_lock(pid)
        self.n = len(self.ids)
        self.pos = {cid: k for k, cid in enumerate(self.ids)}
        if spec['ideal_of']:
            base = package(spec['ideal_of'])
            self.chems = base.chems
            self.thermo = base.thermo.ideal()
        elif spec.get('clone'):
            self.chems = []
            for cid, lk in zip(self.ids, self.lock):
                c = tmo.Chemical(cid, phase=lk) if lk else tmo.Chemical(cid)
                if cid == 'Glycerol':
                    c.N_solutes = 1
                k = spec['psat_scale'].get(cid)
                if k:
                    ref = tmo.Chemical(cid).Psat          # an untouched model object of its own
                    c.Psat.add_method(f=(lambda T, _f=ref, _k=k: _k * _f(T)), Tmin=c.Psat.Tmin, Tmax=c.Psat.Tmax)
                self.chems.append(c)
            self.thermo = tmo.Thermo(tmo.Chemicals(self.chems)).ideal()
        else:
            self.chems = [_chemical(cid, lk) for cid, lk in zip(self.ids, self.lock)]
            self.thermo = tmo.Thermo(tmo.Chemicals(self.chems))
            faults.wrap_mixture(self.thermo.mixture)
        self.compiled = self.thermo.chemicals
        assert [c.ID for c in self.compiled.tuple] == self.ids
        self.vol = [k for k in range(self.n) if self.lock[k] is None]
        self.gas = [k for k in range(self.n) if self.lock[k] == 'g']
        self.heavy = [k for k in range(self.n) if self.lock[k] in ('l', 's')]
        self.solutes = np.array([float(getattr(c, 'N_solutes', 0) or 0) if self.lock[k] in ('l', 's') else 0.
                                 for k, c in enumerate(self.chems)])
        self.MW = np.array([c.MW for c in self.chems], dtype=float)
        self.family = spec['family']
        self.ideal = bool(spec['ideal_of']) or bool(spec.get('clone'))
        # the reference flashes below assume K_i = gamma_i Psat_i / P  (phi = 1, Poynting = 1)
        self.simple_K = ('Ideal' in self.thermo.Phi.__name__ and 'Mock' in self.thermo.PCF.__name__)


def package(pid):
    key = ('pkg', pid)
    if key not in _cache:
        _cache[key] = EqPackage(pid)
    return _cache[key]


def reset_globals():
    """Seam S8: process-global state a run could otherwise inherit from earlier runs."""
    from thermosteam import network
    for cls in (network.AbstractStream, network.AbstractUnit):
        reg = cls.registry
        reg.data.clear()
        reg.safe_to_replace.clear()
        reg.context_levels.clear()
        reg.registered_objects.clear()
        cls.ticket_numbers.clear()
        cls.unregistered_ticket_number = 0
    network.AbstractStream.feed_priorities.clear()
    tmo_indexer.MaterialIndexer._index_caches.clear()
    for pid in PKG_SPECS:
        if ('pkg', pid) in _cache:
            _cache[('pkg', pid)].compiled._index_cache.clear()
    # per-process solver objects (bubble / dew point objects are cached by chemical tuple and model classes):
    # a restarted process starts without them, and a run must not depend on which run created them
    from thermosteam.equilibrium import bubble_point as _bp, dew_point as _dp
    for cls in (_bp.BubblePoint, getattr(_bp, 'BubblePointBeta', None), _dp.DewPoint):
        if cls is not None and isinstance(getattr(cls, '_cached', None), dict):
            cls._cached.clear()
    tmo.settings.set_thermo(package('MIX').thermo)


_warm = set()


def warm_package(pid):
    """Run every kind of equilibrium call once on a throw-away stream of the package so that numba
    compiles its kernels (several seconds each, not cached on disk because they take functions as
    arguments) OUTSIDE the per-step watchdog: a step that stalls is then a stall, not a compile."""
    if pid in _warm:
        return
    _warm.add(pid)
    pk = package(pid)
    row = np.zeros(pk.n)
    for j, k in enumerate(pk.vol[:3]):
        row[k] = 1.0 + j
    for k in pk.gas[:1] + pk.heavy[:1]:
        row[k] = 0.1
    T0 = 350.
    with faults.disarmed(), warnings.catch_warnings():
        warnings.simplefilter('ignore')
        mix = pk.thermo.mixture
        for kw in ({'T': T0, 'P': 101325.}, {'P': 101325., 'V': 0.5}, {'T': T0, 'V': 0.5}, {'P': 101325., 'H': None},
                   {'P': 101325., 'S': None}, {'T': T0, 'H': None}, {'T': T0, 'S': None}, 'lle', 'sle', 'vlle'):
            try:
                s = tmo.MultiStream(None, phases=('g', 'l'), T=T0, P=101325., thermo=pk.thermo)
                s.imol['l'] = row
                if kw == 'lle':
                    s.lle(T=320.)
                elif kw == 'sle':
                    s.sle(pk.ids[pk.vol[0]], T=300.)
                elif kw == 'vlle':
                    if pid == 'MIX':
                        s.vlle(T0, 101325.)
                else:
                    kw = dict(kw)
                    for key in ('H', 'S'):
                        if key in kw:
                            s.vle(T=T0, P=101325.)
                            rows = [(p, dense(r)) for p, r in zip(s.phases, s.imol.data.rows)]
                            kw[key] = float((mix.xH if key == 'H' else mix.xS)(rows, T0, 101325.))
                    s.vle(**kw)
            except Exception:
                pass
        try:
            entropy_noise(pk)
        except Exception:
            pass


# ====================================================================== independent thermodynamics
# Nothing below calls a thermosteam solver.  Only Chemical.Psat, thermo.Gamma objects, the
# LiquidFugacities/GasFugacities evaluators and mixture.xH/xS on dense rows are used.

def fl(x):
    try:
        return float(x).hex()
    except Exception:
        return repr(x)


def psat_vec(pk, idx, T):
    return np.array([float(pk.chems[i].Psat(T)) for i in idx], dtype=float)


def rachford_rice(z, K, zl=0., zh=0.):
    """Rachford-Rice with non-partitioning fractions.  z: feed fractions of the partitioning
    chemicals (z.sum() + zl + zh = 1), zl: non-condensable (K = inf), zh: non-volatile (K = 0).
    Returns (V, l, v): vapour fraction of the whole feed and the liquid / vapour amounts of the
    partitioning chemicals per unit feed.  Bisection on the monotone function sum(y) - sum(x)."""
    z = np.asarray(z, dtype=float)
    K = np.asarray(K, dtype=float)
    Km1 = K - 1.

    def f(V):
        s = float(np.sum(z * Km1 / (1. + V * Km1)))
        if zl:
            s += zl / V
        if zh:
            s -= zh / (1. - V)
        return s

    if not zl and float(np.sum(z * Km1)) <= 0.:
        V = 0.
    elif not zh and float(np.sum(z * Km1 / K)) >= 0.:
        V = 1.
    else:
        lo, hi = 0., 1.
        for _ in range(200):
            mid = 0.5 * (lo + hi)
            if mid <= lo or mid >= hi:
                break
            if f(mid) > 0.:
                lo = mid
            else:
                hi = mid
        V = 0.5 * (lo + hi)
    x = z / (1. + V * Km1)          # liquid "mole numbers" per unit liquid ... times (1 - V) below
    l = x * (1. - V)
    v = z - l
    return V, l, v


def gamma_flash(pk, idx, z, T, P, maxit=600, tol=1e-13):
    """gamma-phi flash of partitioning chemicals only (z sums to 1) by successive substitution
    with K_i = gamma_i(x) Psat_i / P.  Returns (V, l, v, converged)."""
    Ps = psat_vec(pk, idx, T)
    g = pk.thermo.Gamma([pk.chems[i] for i in idx])
    K = Ps / P
    V = l = v = None
    for _ in range(maxit):
        V, l, v = rachford_rice(z, K)
        if V <= 0.:
            x = z.copy()
        elif V >= 1.:
            x = z / K
            x = x / x.sum()
        else:
            x = l / l.sum()
        Kn = np.asarray(g(x.copy(), T), dtype=float) * Ps / P
        if float(np.max(np.abs(np.log(Kn) - np.log(K)))) < tol:
            return V, l, v, True
        K = Kn
    return V, l, v, False


def bubble_P(pk, idx, z, T):
    Ps = psat_vec(pk, idx, T)
    g = np.asarray(pk.thermo.Gamma([pk.chems[i] for i in idx])(z.copy(), T), dtype=float)
    return float(np.sum(z * g * Ps))


def dew_P(pk, idx, z, T):
    Ps = psat_vec(pk, idx, T)
    G = pk.thermo.Gamma([pk.chems[i] for i in idx])
    x = z.copy()
    P = None
    for _ in range(500):
        g = np.asarray(G(x.copy(), T), dtype=float)
        P = 1. / float(np.sum(z / (g * Ps)))
        xn = z * P / (g * Ps)
        xn = xn / xn.sum()
        if float(np.max(np.abs(xn - x))) < 1e-14:
            x = xn
            break
        x = xn
    return P


def raoult_envelope(pk, idx, z, T=None, P=None):
    """Ideal (Raoult) bubble/dew estimate used ONLY by the generator to aim specifications at the
    two-phase region.  Given T -> (P_bubble, P_dew); given P -> (T_bubble, T_dew)."""
    if T is not None:
        Ps = psat_vec(pk, idx, T)
        return float(np.sum(z * Ps)), 1. / float(np.sum(z / Ps))

    def solve(fun):
        lo, hi = 150., 900.
        for _ in range(28):
            mid = 0.5 * (lo + hi)
            if fun(mid) < P:
                lo = mid
            else:
                hi = mid
        return 0.5 * (lo + hi)
    Tb = solve(lambda t: float(np.sum(z * psat_vec(pk, idx, t))))
    Td = solve(lambda t: 1. / float(np.sum(z / psat_vec(pk, idx, t))))
    return Tb, Td


_s_noise = {}


def entropy_noise(pk):
    """Numerical resolution of the package's OWN entropy models: some liquid entropy functions of
    the bundled data are quantised (catastrophic cancellation in the integral of Cp/T; benzene: steps
    of 2 J/mol/K, cyclohexane 3, octane 0.008), so neither a solver nor an oracle can resolve an
    entropy better than that.  Returns {phase: per-chemical max |second difference| over a fine grid}
    [J/mol/K]; the curvature contribution at h = 0.02 K is < 1e-6 and ignored."""
    key = id(pk.thermo.mixture)
    if key in _s_noise:
        return _s_noise[key]
    mix = pk.thermo.mixture
    out = {}
    h = 0.02
    with faults.disarmed(), np.errstate(all='ignore'):
        for ph in ('l', 'g', 's'):
            q = np.zeros(pk.n)
            for k in range(pk.n):
                e = np.zeros(pk.n)
                e[k] = 1.
                worst = 0.
                try:
                    for T in np.linspace(251., 499., 125):
                        a = float(mix.S(ph, e, T - h, 101325.))
                        b = float(mix.S(ph, e, T, 101325.))
                        c = float(mix.S(ph, e, T + h, 101325.))
                        d = abs(a - 2 * b + c)
                        if d > worst:
                            worst = d
                except Exception:
                    worst = 0.
                q[k] = worst
            out[ph] = q
    out['L'] = out['l']
    out['S'] = out['s']
    _s_noise[key] = out
    return out


def entropy_noise_of(pk, snap):
    """[kJ/hr/K] entropy resolution of a whole stream image"""
    q = entropy_noise(pk)
    return float(sum(np.sum(snap.rows[i] * q[p]) for i, p in enumerate(snap.phases)))


# ====================================================================== bounds (C04)
# Solver constants read from vle.py / mixture.py on the unchanged tree:
#   VLE.T_tol = 5e-8 K, P_tol = 1 Pa, H_hat_tol = S_hat_tol = 1e-6 (kJ/kg, kJ/kg/K), V_tol = 1e-6,
#   K_tol = 1e-6 (aitken on [x, V, ln K]), maxiter = 20; Mixture.T_tol = 1e-6 K.
# Calibration (DESIGN 9): tools/eqsim_calibrate.py, fault-free FRESH streams, unchanged tree; the
# frozen value is >= 10 x the largest residual seen.  Numbers are filled in by that tool's report.
VLE_T_TOL = 5e-8
VLE_P_TOL = 1.
VLE_V_TOL = 1e-6
VLE_K_TOL = 1e-6
VLE_HHAT_TOL = 1e-6
MIX_T_TOL = 1e-6

# Every tolerance clause is  residual <= MULT[clause] * unit,  where `unit` is the solver's own
# resolution propagated to the residual (computed per case, see c04_* below) and MULT is frozen from
# the calibration batch: tools/eqsim_calibrate.py 8000 777 (32 408 fresh fault-free in-domain vle
# calls on the unchanged tree, 15 raised) and 3200 4242 (13 034 calls).  Numbers below are
# "max residual/unit of the batch" -> frozen MULT (>= 10 x).  The batches contain a handful of
# OUTLIERS (listed) where the unchanged tree returns an unconverged result on a fresh stream; those
# are not absorbed into the bound: they are the known finding of region C04-fresh-baseline-miss and
# are judged differentially (EqWorld.c04_check).
MULT = {
    # unit = H_hat_tol + Cp/F_mass * Mixture.T_tol [kJ/kg]; batch max 6.6e-5 (n = 5147 + 2060)
    'spec-H': 1.,
    # unit = S_hat_tol + Cp/T/F_mass * Mixture.T_tol + entropy-model resolution [kJ/kg/K]; smooth tail
    # 102, 88, 80, 71, 67, 63 (n = 3826): the closing lever step of set_PS is first order in S
    'spec-S': 2000.,
    # unit = 1e-6 + |d(hat)/dP|_local * P_tol (+ entropy resolution); bulk max 0.40 (H, n = 2490),
    # 0.43 (S, n = 1924); outliers H: 5.1e4, 671, 224; S: 66, (775 at hf < 0.03, no longer generated)
    'spec-H-T': 10., 'spec-S-T': 10.,
    # unit = V_tol + K_tol + |dV/dT| T_tol (|dV/dP| P_tol); bulk max 0.496 (n = 3019 + 1223);
    # outlier 7.58 (TV, V = 0.032 answered at the bubble clamp with V_eq = 0.36)
    'spec-V': 10., 'spec-V-stream': 10.,
    # unit = K_tol on |ln P/P_boundary|; no disagreement in 2 x ~600 TP family cases -> 10 x K_tol
    'phase-boundary': 10.,
    # unit = K_tol on max |ln f_l/f_g|; batch max 0.31 (n = 265 + 123)
    'iso-fugacity': 10.,
    # unit = K_tol + V_tol (fraction of the feed); TP: 8.9e-10 (n = 586 + 233); PV/TV: 8.7e-6
    # (n = 1075 + 454), outlier 4.6e4 (PV, 9 % of the feed); H/S specs: 5.6, 3.4, 1.7 (n = 1508 + 562)
    'ideal-RR': 1., 'ideal-RR-V': 1., 'ideal-RR-HS': 100., 'ideal-RR-xy': 100.,
    # twin universe, unit flows = K_tol + V_tol of the feed, T: T_tol, P: P_tol / P
    # TP/PV/TV: flows 0.11, P 0.11, T bulk 6e-4 (n = 7642 + 3029), outlier T 275 (1.4e-5 K)
    'scaling': 10., 'scaling-T': 10., 'scaling-P': 10.,
    # PH/TH: flows bulk 0.40, outliers 4.4e4, 579, 559, 20; T bulk 1.5e-3, outlier 7.0e6 (0.35 K);
    # P bulk 3e-7, outliers 85, 1.5 (n = 4992 + 2017)
    'scaling-H': 10., 'scaling-H-T': 10., 'scaling-H-P': 10.,
    # PS/TS (units include the entropy models' resolution): flows bulk 3.0, 2.0, 0.63, outliers 1393,
    # 424, 147; T 0.73; P bulk 6e-3, outlier 1991 (n = 3717 + 1498)
    'scaling-S': 100., 'scaling-S-T': 10., 'scaling-S-P': 10.,
}

# ====================================================================== swarm configuration

SPEC_PAIRS = ['TP', 'PV', 'TV', 'PH', 'PS', 'TH', 'TS', 'Tx', 'Px', 'Ty', 'Py']
EQ_OPS = ('vle', 'lle', 'sle', 'vlle')
PHASE_SETS = {
    'C03': [['g', 'l'], ['g', 'l'], ['g', 'l'], ['l', 'L'], ['l', 's'], ['g', 'l', 'L'], ['g', 'l', 's'],
            ['g', 'l', 'L', 's'], ['L', 'l', 's'], ['g', 'L'], ['g', 's'], ['L', 's']],
    'C04': [['g', 'l'], ['g', 'l'], ['g', 'l'], ['g', 'l'], ['g', 'l', 'L'], ['g', 'l', 's'], ['l', 'L'],
            ['l', 's'], ['g', 'l', 'L', 's']],
}
WINDOWS = {
    # property: T range, P range, V range (V closed for C03, open for C04)
    'C03': {'T': (250., 500.), 'P': (1e4, 5e6), 'V': (0., 1.)},
    'C04': {'T': (280., 450.), 'P': (2e4, 1e6), 'V': (0.02, 0.98)},
}
FLOW_MIN, FLOW_MAX = 1e-3, 1e3
TASK_KINDS = {
    # kind: weight of being instantiated in a run, per property
    'C03': {'flash': 4, 'recycle': 3, 'campaign': 3, 'drain_refill': 1, 'decanter': 2, 'crystalliser': 2, 'vlle': 1, 'editor': 3},
    'C04': {'flash': 5, 'recycle': 4, 'campaign': 4.5, 'drain_refill': 3, 'decanter': 1, 'crystalliser': 1, 'vlle': 0.5, 'editor': 3},
}
# react_flash (C03 only): a REACTIVE flash, vle(T, P, liquid_conversion=<reaction>), issued by another unit
# operation on the same stream; it changes the totals by design and is not judged itself - the ordinary
# flashes that follow on the same (warm) solver object are.  Measured reach: on these packages the two-phase
# reactive path raises ValueError unless every chemical of the package is present (about two attempts in
# three raise, counted under exc:react_flash), so this operation mostly exercises the error path; the seeded
# change C03-r3-1 (state left behind by a successful two-phase reactive flash) stays out of reach.
EDITOR_OPS = {'react_flash': 1.5, 'scale': 2, 'to_phase': 2, 'set_phases': 2, 'set_T': 1, 'set_P': 1, 'restart': 2,
              'reset_cache': 1.5, 'set_rows': 1, 'set_flow': 2, 'set_chem': 1.5}
SCALE_FACTORS = [0.1, 0.25, 0.5, 2.0, 3.0, 10.0]
TWIN_FACTORS = [2.0, 0.5, 3.0, 10.0, 0.1, 7.0]


def r6(x):
    return float(f'{x:.6g}')


def draw_totals(r, pid, prop):
    """Per-chemical total flows [kmol/hr] of a new feed, inside the property's domain."""
    spec = PKG_SPECS[pid]
    ids = pkg_ids(pid)
    nv = len(spec['vol'])
    tot = [0.0] * len(ids)
    if prop == 'C03':
        kv = r.choice([0, 1, 1, 2, 2, 2, 3, 3, 4, 5])
        kv = min(kv, nv)
        for k in r.sample(range(nv), kv):
            tot[k] = r6(10 ** r.uniform(-3, 3))
        for k in range(nv, len(ids)):
            if r.random() < (0.35 if kv else 0.7):
                tot[k] = r6(10 ** r.uniform(-3, 3))
        if not any(tot):
            tot[r.randrange(len(ids))] = r6(10 ** r.uniform(-3, 3))
        return tot
    # C04: 1-5 volatile chemicals, every mole fraction >= 0.02, small amounts of locked chemicals
    kv = min(r.choice([1, 2, 2, 2, 3, 3, 3, 4, 5]), nv)
    chosen = sorted(r.sample(range(nv), kv))
    w = [r.expovariate(1.0) + 1e-3 for _ in chosen]
    sw = sum(w)
    F = 10 ** r.uniform(-1.25, 2.95)
    for k, wk in zip(chosen, w):
        frac = 0.025 + (1. - 0.025 * kv) * wk / sw
        tot[k] = r6(min(max(frac * F, FLOW_MIN), FLOW_MAX))
    for k in range(nv, len(ids)):
        if r.random() < 0.2:
            tot[k] = r6(min(max(r.uniform(0.004, 0.06) * F, FLOW_MIN), FLOW_MAX))
    return tot


def draw_rows(r, pid, prop, phases, tot):
    """Distribute per-chemical totals over the phase rows."""
    lock = pkg_lock(pid)
    rows = {p: [0.0] * len(tot) for p in phases}
    lg = [p for p in phases if p in ('l', 'g')]
    for k, t in enumerate(tot):
        if not t:
            continue
        if prop == 'C04' or lock[k] == 'g':
            cand = lg or list(phases)      # C04 speaks about the material in the l/g rows
        else:
            cand = list(phases)
        if len(cand) > 1 and r.random() < 0.3:
            a, b = r.sample(cand, 2)
            f = r.choice([0.25, 0.5, 0.75, r.uniform(0.01, 0.99)])
            rows[a][k] = r6(t * f)
            rows[b][k] = r6(t * (1 - f))
        else:
            rows[r.choice(cand)][k] = t
    return rows


def make_cfg(rng, prop, tier):
    lo, hi = tier.get('steps', (15, 40))
    pids = ['ALC', 'HC', 'IDL', 'IDL2', 'MIX']
    if prop == 'C03':
        pool = rng.sample(['MIX', 'MIX', 'ALC', 'HC', 'IDL'], rng.randint(2, 3))
    else:
        pool = rng.sample(['ALC', 'ALC', 'HC', 'HC', 'IDL', 'IDL', 'IDL2', 'IDL2', 'MIX'], rng.randint(2, 3))
    pool = [p for p in pids if p in pool]
    win = WINDOWS[prop]
    n_streams = rng.randint(3, 6)
    streams = []
    for i in range(n_streams):
        pid = rng.choice(pool)
        phases = sorted(rng.choice(PHASE_SETS[prop]))
        tot = draw_totals(rng, pid, prop)
        streams.append({'name': f's{i}', 'pkg': pid, 'phases': phases,
                        'T': r6(rng.uniform(*win['T'])), 'P': r6(10 ** rng.uniform(math.log10(win['P'][0]),
                                                                                 math.log10(win['P'][1]))),
                        'rows': draw_rows(rng, pid, prop, phases, tot)})
    if prop == 'C04' and 'IDL2' in pool:
        # the same feed on both ideal packages (same IDs, other Chemical objects / vapour pressures): IDL first
        src = next((sp for sp in streams if sp['pkg'] in ('IDL', 'IDL2')), None)
        if src is not None:
            a = dict(src, pkg='IDL')
            b = dict(src, pkg='IDL2', name=f's{n_streams}')
            streams[streams.index(src)] = a
            streams.append(b)
            n_streams += 1
    kinds = TASK_KINDS[prop]
    tasks = []
    for i in range(n_streams):           # every stream has a flash-type task of its own
        tasks.append({'kind': rng.choice(['flash', 'flash', 'recycle', 'campaign', 'drain_refill']), 'stream': f's{i}',
                      'pair': rng.choice(SPEC_PAIRS + ['any', 'any', 'any']), 'w': rng.choice([1, 2, 3])})
    for _ in range(rng.randint(2, 5)):
        kind = rng.choices(sorted(kinds), [kinds[k] for k in sorted(kinds)])[0]
        tasks.append({'kind': kind, 'stream': f's{rng.randrange(n_streams)}',
                      'pair': rng.choice(SPEC_PAIRS + ['any', 'any', 'any']), 'w': rng.choice([1, 2, 3])})
    if not any(t['kind'] == 'editor' for t in tasks):
        tasks.append({'kind': 'editor', 'stream': f's{rng.randrange(n_streams)}', 'pair': 'any', 'w': 2})
    # swarm over editor operations: each kind kept with probability 0.75
    editor_w = {o: (w if rng.random() < 0.75 else 0) for o, w in sorted(EDITOR_OPS.items())}
    if not any(editor_w.values()):
        editor_w['set_flow'] = 1
    faulty = rng.random() < tier.get('fault_runs', 0.4)
    cfg = {
        'world': 'eq', 'steps': rng.randint(lo, hi), 'streams': streams, 'tasks': tasks,
        'editor_w': editor_w,
        'faults': faulty, 'fault_rate': rng.choice([0.15, 0.3, 0.5]) if faulty else 0.,
        'ftwin_rate': rng.choice([0., 0.15, 0.3]),
        'twin_k': (rng.choice(TWIN_FACTORS) if (prop == 'C04' and rng.random() < tier.get('twin_runs', 0.5))
                   else None),
        'max_vlle': 2,
        'regions': list(tier.get('regions', [])),
        'step_timeout': float(tier.get('step_timeout', 20.0)),
    }
    return cfg


def World(prop, cfg):
    return EqWorld(prop, cfg)


# ====================================================================== snapshots

class Snap:
    """Dense image of one stream's observable state."""
    __slots__ = ('phases', 'rows', 'T', 'P')

    def __init__(self, phases, rows, T, P):
        self.phases, self.rows, self.T, self.P = phases, rows, T, P

    def row(self, ph):
        if ph in self.phases:
            return self.rows[self.phases.index(ph)]
        return np.zeros(self.rows.shape[1])

    def totals(self):
        return self.rows.sum(axis=0)

    def lg(self):
        return self.row('l') + self.row('g')

    def to_json(self):
        return {'phases': list(self.phases), 'T': self.T, 'P': self.P,
                'rows': {p: [float(v) for v in self.rows[i]] for i, p in enumerate(self.phases)}}


def dense(x):
    if hasattr(x, 'to_array'):
        return np.array(x.to_array(), dtype=float)
    return np.array(x, dtype=float)


def take_snap(s):
    phases = tuple(s.phases)
    data = s.imol.data
    if isinstance(s, tmo.MultiStream):
        rows = np.array([dense(r) for r in data.rows], dtype=float)
    else:
        rows = dense(data).reshape(1, -1)
    return Snap(phases, rows, float(s.T), float(s.P))


def rows_digest(snap):
    h = hashlib.blake2b(digest_size=8)
    h.update(','.join(snap.phases).encode())
    h.update(np.ascontiguousarray(snap.rows, dtype=float).tobytes())
    return h.hexdigest()


class Comp:
    """Classification of the material in the l+g rows (what a VLE call works on)."""
    __slots__ = ('lg', 'vol', 'F_vol', 'F_gas', 'F_heavy', 'F_solute', 'F', 'N_eff', 'z', 'clean')

    def __init__(self, pk, snap):
        lg = snap.lg()
        self.lg = lg
        self.clean = bool(np.all(np.isfinite(snap.rows)) and np.all(snap.rows >= 0.))
        self.vol = [k for k in pk.vol if lg[k] > 0.]
        self.F_vol = float(sum(lg[k] for k in self.vol))
        self.F_gas = float(sum(lg[k] for k in pk.gas))
        self.F_heavy = float(sum(lg[k] for k in pk.heavy))
        self.F_solute = float(sum(lg[k] * pk.solutes[k] for k in pk.heavy))
        self.F = self.F_vol + self.F_gas + self.F_solute        # moles the equilibrium "sees"
        self.N_eff = len(self.vol) + (self.F_gas > 0.) + (self.F_solute > 0.)
        self.z = (np.array([lg[k] for k in self.vol], dtype=float) / self.F_vol) if self.F_vol > 0. else None


# ====================================================================== the world

class EqWorld(BaseWorld):

    def __init__(self, prop, cfg):
        super().__init__(prop, cfg)
        reset_globals()
        self.regions = set(cfg.get('regions', []))
        self.win = WINDOWS[prop]
        self.streams = {}
        self.twins = {}
        self.pkg_of = {}
        self.last_spec = {}
        self.age = {}            # equilibrium calls seen by the stream's current solver objects
        self.n_vlle = 0
        self.tstate = {}         # task index -> generator memory (never used by replay)
        self.k = cfg.get('twin_k')
        self.calib = cfg.get('calib')     # calibration mode: residuals are recorded, not judged
        self.resid = {}
        self.n_baseline = 0
        self.last_obs = self.main_obs = self.twin_obs = None
        self.baseline_keys = set()    # (stream, specification pair) combinations with a baseline miss
        self.checked_keys = set()     # ... that were judged at all
        self.cur_key = None
        used = {spec['pkg'] for spec in cfg['streams']}
        if used & {'IDL', 'IDL2'}:
            # the two packages agree in their chemical IDs: whichever is used first in a process creates the
            # per-process solver objects.  Fixed order, so that a run means the same in every process
            used |= {'IDL', 'IDL2'}
        for pid in sorted(used):
            warm_package(pid)
        for spec in cfg['streams']:
            s = self._create(spec['pkg'], spec['phases'], spec['T'], spec['P'], spec['rows'], 1.0)
            self.streams[spec['name']] = s
            self.pkg_of[spec['name']] = spec['pkg']
            self.last_spec[spec['name']] = '-'
            self.age[spec['name']] = 0
            if self.k:
                self.twins[spec['name']] = self._create(spec['pkg'], spec['phases'], spec['T'], spec['P'],
                                                        spec['rows'], self.k)
        n = len(cfg['streams'])
        self.users = {name: sum(1 for t in cfg['tasks'] if t['stream'] == name) for name in self.streams}
        assert n == len(self.streams)

    # ------------------------------------------------------------ universe
    def _create(self, pid, phases, T, P, rows, k):
        pk = package(pid)
        s = tmo.MultiStream(None, phases=tuple(phases), T=T, P=P, thermo=pk.thermo)
        for p in phases:
            s.imol[p] = np.array(rows[p], dtype=float) * k
        return s

    def pk(self, name):
        return package(self.pkg_of[name])

    def fresh_from(self, name, snap):
        pk = self.pk(name)
        s = tmo.MultiStream(None, phases=tuple(snap.phases), T=snap.T, P=snap.P, thermo=pk.thermo)
        for i, p in enumerate(snap.phases):
            s.imol[p] = snap.rows[i].copy()
        return s

    def dirty(self, name):
        """True when the stream left the properties' input domain (only after a raising call)."""
        try:
            sn = take_snap(self.streams[name])
        except Exception:
            return True
        if not (np.all(np.isfinite(sn.rows)) and np.all(sn.rows >= 0.)):
            return True
        tot = sn.totals()
        nz = tot[tot > 0.]
        if nz.size == 0:
            return True
        return bool(np.any(nz < FLOW_MIN * (1 - 1e-6)) or np.any(nz > FLOW_MAX * (1 + 1e-6)))

    # ------------------------------------------------------------ generation
    def gen(self, rngs):
        for name in sorted(self.streams):
            if self.dirty(name):
                self.stats['repair'] += 1
                return self.gen_set_rows(name, rngs.args)
        tasks = self.cfg['tasks']
        wts = [t['w'] for t in tasks]
        for _ in range(30):
            ti = rngs.sched.choices(range(len(tasks)), wts)[0]
            ev = self.task_event(ti, tasks[ti], rngs.args)
            if ev is None:
                continue
            ev['task'] = f"{tasks[ti]['kind']}#{ti}"
            reg = self.in_region(ev)
            if reg:
                self.stats['region:' + reg] += 1
                continue
            if not self.pre(ev):
                continue
            if ev['op'] in EQ_OPS:
                if self.cfg['faults'] and rngs.fault.random() < self.cfg['fault_rate']:
                    ev['fault'] = self.gen_fault(ev, rngs.fault)
                if ev['op'] == 'vle' and rngs.args.random() < self.cfg.get('ftwin_rate', 0.):
                    ev['ftwin'] = True
            return ev
        return {'op': 'noop'}

    def task_event(self, ti, t, r):
        name = t['stream']
        kind = t['kind']
        st = self.tstate.setdefault(ti, {'step': 0})
        st['step'] += 1
        if kind == 'flash':
            return self.gen_vle(name, t, st, r)
        if kind == 'recycle':
            if st['step'] % 2 == 1:
                return self.gen_perturb(name, r)
            return self.gen_vle(name, t, st, r, keep=0.8)
        if kind == 'campaign':
            # a campaign changes the SET of chemicals between flashes: by one chemical, or (swap) by taking one
            # out and putting another in, so that the solver meets another set of the same size
            if st.get('swap_pending'):
                st['swap_pending'] = False
                st['step'] -= 1
                return self.gen_set_chem(name, r, force='add')
            m = st['step'] % 3
            if m == 1:
                if r.random() < 0.5:
                    ev = self.gen_set_chem(name, r, force='remove')
                    if ev is not None:
                        st['swap_pending'] = True
                    return ev
                return self.gen_set_chem(name, r)
            return self.gen_vle(name, t, st, r, keep=0.6)
        if kind == 'drain_refill':
            # flash; take every volatile chemical out (what stays is gas / heavy material only); flash what is left
            # ("nothing to equilibrate"); put the SAME chemicals back; flash again
            plan = st.get('plan')
            if not plan:
                pk = self.pk(name)
                try:
                    sn = take_snap(self.streams[name])
                except Exception:
                    return None
                tot = sn.totals()
                vols = [k for k in pk.vol if tot[k] > 0.]
                lg = [p for p in sn.phases if p in ('l', 'g')]
                if not vols or not lg:
                    return self.gen_vle(name, t, st, r, keep=0.5)
                ph = 'l' if 'l' in lg else lg[0]
                plan = [('vle',)]
                locked = [k for k in pk.gas + pk.heavy if tot[k] > 0.]
                if not locked and (pk.gas or pk.heavy):
                    # something has to stay behind when the volatile chemicals are taken out
                    k0 = (pk.gas or pk.heavy)[0]
                    plan.append(('set', pk.ids[k0], r6(max(0.02 * float(tot.sum()), FLOW_MIN)),
                                 'g' if (k0 in pk.gas and 'g' in lg) else ph))
                plan += [('set', pk.ids[k], 0.0, sn.phases[0]) for k in vols]
                plan += [('vle',)]
                plan += [('set', pk.ids[k], r6(float(tot[k])), ph) for k in vols]
                plan += [('vle',), ('vle',)]
                st['plan'] = plan
            step = plan.pop(0)
            if step[0] == 'vle':
                return self.gen_vle(name, t, st, r, keep=0.7)
            return {'op': 'set_chem', 'stream': name, 'chem': step[1], 'phase': step[3], 'value': step[2]}
        if kind == 'decanter':
            return self.gen_lle(name, st, r)
        if kind == 'crystalliser':
            return self.gen_sle(name, st, r)
        if kind == 'vlle':
            return self.gen_vlle(name, r)
        ops = sorted(self.cfg['editor_w'])
        w = [self.cfg['editor_w'][o] for o in ops]
        op = r.choices(ops, w)[0]
        name = r.choice(sorted(self.streams)) if r.random() < 0.5 else name
        return getattr(self, 'gen_' + op)(name, r)

    # ---- specification values
    def draw_T(self, r):
        return r6(r.uniform(*self.win['T']))

    def draw_P(self, r):
        lo, hi = self.win['P']
        return r6(10 ** r.uniform(math.log10(lo), math.log10(hi)))

    def draw_V(self, r):
        lo, hi = self.win['V']
        if self.prop == 'C03':
            u = r.random()
            if u < 0.08:
                return 0.0
            if u < 0.16:
                return 1.0
            return r6(r.uniform(0., 1.))
        return r6(r.uniform(lo + 1e-3, hi - 1e-3))

    def clipT(self, T):
        lo, hi = self.win['T']
        return r6(min(max(T, lo), hi))

    def clipP(self, P):
        lo, hi = self.win['P']
        return r6(min(max(P, lo), hi))

    def envelope(self, name, T=None, P=None):
        """Generator aid: Raoult estimate of the two-phase window of the l+g material."""
        pk = self.pk(name)
        try:
            c = Comp(pk, take_snap(self.streams[name]))
            if c.z is None:
                return None
            with faults.disarmed(), np.errstate(all='ignore'):
                a, b = raoult_envelope(pk, c.vol, c.z, T=T, P=P)
            if not (math.isfinite(a) and math.isfinite(b)):
                return None
            return a, b
        except Exception:
            return None

    def gen_vle(self, name, t, st, r, keep=0.5):
        pair = t['pair']
        if pair == 'any':
            pair = r.choice(SPEC_PAIRS[:7]) if r.random() < 0.85 else r.choice(SPEC_PAIRS[7:])
        if pair in SPEC_PAIRS[7:] and r.random() < 0.85:
            # x / y specifications exist for exactly two partitioning chemicals
            try:
                c = Comp(self.pk(name), take_snap(self.streams[name]))
                if not (len(c.vol) == 2 and c.N_eff == 2):
                    pair = r.choice(SPEC_PAIRS[:7])
            except Exception:
                pass
        last = st.get('last')
        ev = {'op': 'vle', 'stream': name, 'spec': pair}
        if last is not None and last['spec'] == pair and r.random() < keep:
            # a converging loop re-runs the flash with nearly the same specification
            for key in ('T', 'P', 'V', 'hf', 'Tref', 'x'):
                if key in last:
                    ev[key] = last[key]
            if 'T' in ev:
                ev['T'] = self.clipT(ev['T'] + r.choice([0., 0., r.uniform(-1, 1), r.uniform(-0.01, 0.01)]))
            if 'P' in ev:
                ev['P'] = self.clipP(ev['P'] * (1 + r.choice([0., 0., r.uniform(-0.02, 0.02)])))
            if 'V' in ev and 0. < ev['V'] < 1.:
                lo, hi = self.win['V']
                ev['V'] = r6(min(max(ev['V'] + r.choice([0., r.uniform(-0.03, 0.03)]), lo + 1e-3 if lo else 0.),
                                 hi - 1e-3 if hi < 1 else 1.))
            if 'hf' in ev:
                ev['hf'] = r6(min(max(ev['hf'] + r.choice([0., r.uniform(-0.03, 0.03)]), 0.), 1.))
            st['last'] = dict(ev)
            return ev
        aim = r.random() < 0.65          # aim at the two-phase region (else anywhere in the window)
        if pair == 'TP':
            ev['T'] = self.draw_T(r)
            ev['P'] = self.draw_P(r)
            env_ = self.envelope(name, T=ev['T']) if aim else None
            if env_:
                pb, pd = env_
                ev['P'] = self.clipP(math.exp(r.uniform(math.log(max(pd, 1.)) - 0.25, math.log(max(pb, 1.)) + 0.25)))
        elif pair == 'PV':
            ev['P'] = self.draw_P(r)
            ev['V'] = self.draw_V(r)
        elif pair == 'TV':
            ev['T'] = self.draw_T(r)
            ev['V'] = self.draw_V(r)
        elif pair in ('PH', 'PS'):
            ev['P'] = self.draw_P(r)
            ev['Tref'] = self.draw_T(r)
            env_ = self.envelope(name, P=ev['P']) if aim else None
            if env_:
                tb, td = env_
                ev['Tref'] = self.clipT(r.uniform(tb - 15., td + 15.))
            ev['hf'] = r6(r.uniform(0., 1.))
        elif pair in ('TH', 'TS'):
            ev['T'] = self.draw_T(r)
            if r.random() < 0.3:
                try:
                    Tc = take_snap(self.streams[name]).T
                    if self.win['T'][0] <= Tc <= self.win['T'][1]:
                        ev['T'] = Tc                  # re-flash at the stream's current temperature
                except Exception:
                    pass
            if self.prop == 'C04' or r.random() < 0.9:
                ev['hf'] = r6(r.uniform(0.03, 0.97))
            else:
                ev['hf'] = r6(r.uniform(0., 1.))
        else:
            ev.update(self.gen_xy(name, pair, r))
        st['last'] = dict(ev)
        return ev

    def gen_xy(self, name, pair, r):
        """Binary x / y specification aimed at a feasible lever rule (Raoult estimate)."""
        pk = self.pk(name)
        out = {}
        cur = None
        try:
            cur = take_snap(self.streams[name])
        except Exception:
            pass
        here = cur is not None and r.random() < 0.6      # "flash at the stream's current T (P)"
        if pair[0] == 'T':
            lo, hi = self.win['T']
            out['T'] = cur.T if (here and lo <= cur.T <= hi) else self.draw_T(r)
        else:
            lo, hi = self.win['P']
            out['P'] = cur.P if (here and lo <= cur.P <= hi) else self.draw_P(r)
        x0 = r.uniform(0.05, 0.95)
        try:
            c = Comp(pk, take_snap(self.streams[name]))
            if c.z is not None and len(c.vol) == 2:
                with faults.disarmed(), np.errstate(all='ignore'):
                    if 'T' in out:
                        T = out['T']
                    else:
                        T = raoult_envelope(pk, c.vol, c.z, P=out['P'])[0]
                    Ps = psat_vec(pk, c.vol, T)
                K0, K1 = float(Ps[0]), float(Ps[1])
                z0 = float(c.z[0]) * c.F_vol / c.F if c.F else float(c.z[0])
                u = r.uniform(0.15, 0.85)
                if pair[1] == 'x':
                    edge = z0 * K1 / (K0 - z0 * (K0 - K1))          # x0 at which y0(x0) = z0
                else:
                    edge = z0 * K0 / (K1 + z0 * (K0 - K1))          # y0 at which x0(y0) = z0
                x0 = z0 + u * (edge - z0)
                x0 = min(max(x0, 1e-4), 1 - 1e-4)
        except Exception:
            pass
        out['x'] = [r6(x0), r6(1. - r6(x0))]
        return out

    def gen_lle(self, name, st, r):
        ev = {'op': 'lle', 'stream': name}
        last = st.get('last')
        if last is not None and r.random() < 0.6:
            ev['T'] = self.clipT(last['T'] + r.choice([0., r.uniform(-0.5, 0.5), r.uniform(-1e-7, 1e-7)]))
        else:
            ev['T'] = r6(r.uniform(max(self.win['T'][0], 280.), min(self.win['T'][1], 380.)))
        if r.random() < 0.4:
            ev['P'] = self.draw_P(r)
        if r.random() < 0.3:
            ev['top'] = r.choice(self.pk(name).ids)
        if r.random() < 0.25:
            ev['use_cache'] = False
        if r.random() < 0.2:
            ev['single_loop'] = True
        st['last'] = dict(ev)
        return ev

    def gen_sle(self, name, st, r):
        pk = self.pk(name)
        try:
            tot = take_snap(self.streams[name]).totals()
        except Exception:
            return None
        cand = [pk.ids[k] for k in pk.vol if tot[k] > 0.]
        if not cand:
            return None
        solute = 'Tetradecanol' if ('Tetradecanol' in cand and r.random() < 0.7) else r.choice(cand)
        ev = {'op': 'sle', 'stream': name, 'solute': solute}
        if solute == 'Tetradecanol':
            ev['T'] = r6(r.uniform(max(self.win['T'][0], 280.), 330.))
        else:
            ev['T'] = self.draw_T(r)
        if r.random() < 0.3:
            ev['P'] = self.draw_P(r)
        return ev

    def gen_vlle(self, name, r):
        if self.n_vlle >= self.cfg.get('max_vlle', 2):
            return None
        try:
            sn = take_snap(self.streams[name])
        except Exception:
            return None
        for p in ('s', 'S'):          # Stream.vlle sets phases ('L','g','l'): solids cannot be represented
            if p in sn.phases and sn.row(p).any():
                return None
        T = r6(r.uniform(max(self.win['T'][0], 300.), min(self.win['T'][1], 400.)))
        return {'op': 'vlle', 'stream': name, 'T': T, 'P': r.choice([101325.0, self.draw_P(r)])}

    # ---- editors
    def gen_perturb(self, name, r):
        """A recycle iteration: one existing entry changes a little (non-zero set unchanged)."""
        pk = self.pk(name)
        try:
            sn = take_snap(self.streams[name])
        except Exception:
            return None
        ent = [(i, k) for i in range(len(sn.phases)) for k in range(pk.n) if sn.rows[i, k] > 0.]
        if not ent:
            return None
        i, k = r.choice(ent)
        tot = float(sn.totals()[k])
        f = 1. + r.uniform(-0.08, 0.08)
        new = sn.rows[i, k] * f
        ntot = tot - sn.rows[i, k] + new
        if not (FLOW_MIN <= ntot <= FLOW_MAX):
            return None
        return {'op': 'set_flow', 'stream': name, 'phase': sn.phases[i], 'chem': pk.ids[k], 'value': r6(new)}

    def gen_set_flow(self, name, r):
        pk = self.pk(name)
        try:
            sn = take_snap(self.streams[name])
        except Exception:
            return None
        if self.prop == 'C04' and r.random() < 0.8:
            cand = [p for p in sn.phases if p in ('l', 'g')] or list(sn.phases)
        else:
            cand = list(sn.phases)
        ph = r.choice(cand)
        k = r.randrange(pk.n)
        if pk.lock[k] == 'g' and ph not in ('l', 'g'):
            return None
        i = sn.phases.index(ph)
        tot = float(sn.totals()[k])
        rest = tot - sn.rows[i, k]
        u = r.random()
        if u < 0.3:
            val = 0.0
        else:
            if self.prop == 'C04':
                F = float(sn.totals().sum()) or 1.
                lo, hi = (0.03 * F, 0.6 * F) if pk.lock[k] is None else (0.004 * F, 0.05 * F)
                val = r6(r.uniform(lo, hi))
            else:
                val = r6(10 ** r.uniform(-3, 3))
        ntot = rest + val
        if ntot and not (FLOW_MIN <= ntot <= FLOW_MAX):
            return None
        if not ntot and not (sn.totals().sum() - tot) > 0.:
            return None            # would empty the stream
        return {'op': 'set_flow', 'stream': name, 'phase': ph, 'chem': pk.ids[k], 'value': val}

    def gen_set_chem(self, name, r, force=None):
        """Add or remove a chemical as a whole: the set of non-zero chemicals changes."""
        pk = self.pk(name)
        try:
            sn = take_snap(self.streams[name])
        except Exception:
            return None
        tot = sn.totals()
        present = [k for k in range(pk.n) if tot[k] > 0.]
        absent = [k for k in range(pk.n) if not tot[k] > 0.]
        F = float(tot.sum()) or 1.
        if self.prop == 'C04':
            nvol = sum(1 for k in present if pk.lock[k] is None)
            removable = [k for k in present if pk.lock[k] is not None or nvol > 1]
        else:
            removable = present if len(present) > 1 else []
        if force == 'remove':
            absent = []
        elif force == 'add':
            removable = []
        if absent and (not removable or r.random() < 0.55):
            k = r.choice(absent)
            if self.prop == 'C04':
                lo, hi = (0.03 * F, 0.5 * F) if pk.lock[k] is None else (0.004 * F, 0.05 * F)
                val = r6(min(max(r.uniform(lo, hi), FLOW_MIN), FLOW_MAX))
                if pk.lock[k] is None and nvol >= 5:
                    return None
            else:
                val = r6(10 ** r.uniform(-3, 3))
            lg = [p for p in sn.phases if p in ('l', 'g')]
            cand = lg if (lg and (self.prop == 'C04' or pk.lock[k] == 'g')) else list(sn.phases)
            return {'op': 'set_chem', 'stream': name, 'chem': pk.ids[k], 'phase': r.choice(cand), 'value': val}
        if removable:
            k = r.choice(removable)
            return {'op': 'set_chem', 'stream': name, 'chem': pk.ids[k], 'phase': sn.phases[0], 'value': 0.0}
        return None

    def gen_set_rows(self, name, r):
        pid = self.pkg_of[name]
        try:
            phases = list(self.streams[name].phases)
        except Exception:
            phases = ['g', 'l']
        tot = draw_totals(r, pid, self.prop)
        return {'op': 'set_rows', 'stream': name, 'rows': draw_rows(r, pid, self.prop, phases, tot)}

    def gen_scale(self, name, r):
        try:
            tot = take_snap(self.streams[name]).totals()
        except Exception:
            return None
        nz = tot[tot > 0.]
        ok = [k for k in SCALE_FACTORS if nz.size and nz.min() * k >= FLOW_MIN and nz.max() * k <= FLOW_MAX]
        if not ok:
            return None
        return {'op': 'scale', 'stream': name, 'k': r.choice(ok)}

    def gen_react_flash(self, name, r):
        if self.prop != 'C03':
            return None
        pk = self.pk(name)
        try:
            sn = take_snap(self.streams[name])
        except Exception:
            return None
        if not {'l', 'g'} <= set(sn.phases):
            return None
        tot = sn.totals()
        present = [k for k in pk.vol if tot[k] > 0.]
        if len(pk.vol) < 2 or not present:
            return None
        a = r.choice(present)
        b = r.choice([k for k in pk.vol if k != a])
        return {'op': 'react_flash', 'stream': name, 'reactant': pk.ids[a], 'product': pk.ids[b],
                'X': r.choice([0.1, 0.2, 0.5]), 'T': self.draw_T(r), 'P': self.draw_P(r)}

    def gen_to_phase(self, name, r):
        pk = self.pk(name)
        try:
            sn = take_snap(self.streams[name])
        except Exception:
            return None
        if self.prop == 'C04' and r.random() < 0.8:
            cand = [p for p in sn.phases if p in ('l', 'g')] or list(sn.phases)
        else:
            cand = list(sn.phases)
        ph = r.choice(cand)
        if ph not in ('l', 'g') and any(sn.totals()[k] > 0. for k in pk.gas):
            return None
        return {'op': 'to_phase', 'stream': name, 'phase': ph}

    def gen_set_phases(self, name, r):
        return {'op': 'set_phases', 'stream': name, 'phases': sorted(r.choice(PHASE_SETS[self.prop]))}

    def gen_set_T(self, name, r):
        return {'op': 'set_T', 'stream': name, 'T': self.draw_T(r)}

    def gen_set_P(self, name, r):
        return {'op': 'set_P', 'stream': name, 'P': self.draw_P(r)}

    def gen_restart(self, name, r):
        return {'op': 'restart', 'stream': name}

    def gen_reset_cache(self, name, r):
        return {'op': 'reset_cache', 'stream': name}

    # ---- faults
    def gen_fault(self, ev, r):
        op = ev['op']
        spec = ev.get('spec', '')
        model_sites = []
        if op == 'vle':
            if 'H' in spec:
                model_sites = ['H', 'H', 'Cn']
            elif 'S' in spec:
                model_sites = ['S', 'S', 'Cn']
            elif 'V' in spec:
                model_sites = ['H']
        solver_sites = {'vle': ['aitken', 'aitken', 'IQ_interpolation', 'IQ_interpolation', 'aitken_secant',
                                'wegstein'],
                        'lle': ['fixed_point', 'IQ_interpolation'],
                        'sle': ['aitken'],
                        'vlle': ['fixed_point', 'aitken', 'IQ_interpolation', 'aitken_secant']}[op]
        if self.prop == 'C04' and op == 'vle' and WEGSTEIN_REGION in self.regions:
            # listed finding KF-C04-6: a failing inner wegstein iteration sends DewPoint.solve_Tx / solve_Px into an
            # IQ fallback that returns the end of its bracket; the flash built on it is wrong without any error
            solver_sites = [x for x in solver_sites if x != 'wegstein']
            self.stats['region:' + WEGSTEIN_REGION] += 1
        exc = r.choice(['RuntimeError', 'RuntimeError', 'InfeasibleRegion', 'ValueError', 'FloatingPointError'])
        if model_sites and r.random() < 0.5:
            return {'kind': 'model_error', 'site': r.choice(model_sites), 'nth': r.choice([1, 1, 2, 2, 3, 4, 6, 9]),
                    'exc': exc}
        return {'kind': 'solver_fail', 'site': r.choice(solver_sites), 'nth': r.choice([1, 1, 2, 2, 3, 4, 6, 9, 14]),
                'exc': exc}

    # ------------------------------------------------------------ regions (known findings)
    def in_region(self, ev):
        """-> id of an excluded known-finding region this event falls in, or None."""
        for reg in sorted(self.regions):
            pred = REGIONS.get(reg)
            if pred is not None and pred(self, ev):
                return reg
        return None

    def n_eff(self, name):
        try:
            return Comp(self.pk(name), take_snap(self.streams[name])).N_eff
        except Exception:
            return None

    # ------------------------------------------------------------ preconditions
    def pre(self, ev):
        op = ev.get('op')
        if op == 'noop':
            return True
        name = ev.get('stream')
        if name not in self.streams:
            return False
        f_ = ev.get('fault')
        if (f_ and self.prop == 'C04' and op == 'vle' and f_.get('kind') == 'solver_fail'
                and f_.get('site') == 'wegstein' and WEGSTEIN_REGION in self.regions):
            return False
        pk = self.pk(name)
        s = self.streams[name]
        try:
            phases = tuple(s.phases)
        except Exception:
            return False
        if self.regions and self.in_region(ev):
            return False             # (shrinking must not drift into an excluded known-finding region)
        if op == 'vle':
            if ev.get('spec') not in SPEC_PAIRS:
                return False
            if 'x' in ev and len(ev['x']) != 2:
                return False
            if 'H' in ev['spec'] or 'S' in ev['spec']:
                # the specification is a fraction of the all-liquid..all-vapour span of the CURRENT state;
                # it exists only if the mixture models can evaluate that span (e.g. no solid-entropy
                # model for a chemical sitting in an 's' row -> no such specification)
                try:
                    with faults.disarmed(), np.errstate(all='ignore'):
                        lo, hi = self.energy_span(pk, take_snap(s), ev)
                    return bool(math.isfinite(lo) and math.isfinite(hi))
                except Exception:
                    return False
            return True
        if op in ('lle', 'vlle'):
            return True
        if op == 'sle':
            return ev['solute'] in pk.pos
        if op in ('set_flow', 'set_chem'):
            return ev['phase'] in phases and ev['chem'] in pk.pos and ev['value'] >= 0.
        if op == 'set_rows':
            return sorted(ev['rows']) == sorted(phases) and all(len(v) == pk.n for v in ev['rows'].values())
        if op == 'scale':
            if not ev['k'] > 0:
                return False
            try:
                tot = take_snap(s).totals()
            except Exception:
                return False
            nz = tot[tot > 0.]
            return bool(nz.size and nz.min() * ev['k'] >= FLOW_MIN * (1 - 1e-9)
                        and nz.max() * ev['k'] <= FLOW_MAX * (1 + 1e-9))
        if op == 'react_flash':
            return (self.prop == 'C03' and {'l', 'g'} <= set(phases) and ev.get('reactant') in pk.pos
                    and ev.get('product') in pk.pos and ev['reactant'] != ev['product'] and 0 < ev.get('X', 0) < 1)
        if op == 'to_phase':
            return ev['phase'] in phases
        if op == 'set_phases':
            new = set(ev['phases'])
            if len(new) < 2:
                return False
            try:
                sn = take_snap(s)
            except Exception:
                return False
            for i, p in enumerate(sn.phases):
                if sn.rows[i].any() and p not in new and p.swapcase() not in new:
                    return False
            return True
        if op in ('set_T', 'set_P', 'restart', 'reset_cache'):
            return True
        return False

    # ------------------------------------------------------------ execution
    def apply(self, ev):
        op = ev['op']
        if op == 'noop':
            return 'noop'
        if not self.pre(ev):
            return 'skip:pre'
        kind = op + ('_' + ev['spec'] if op == 'vle' else '')
        self.stats['op:' + kind] += 1
        with warnings.catch_warnings():
            warnings.simplefilter('ignore')
            if op in EQ_OPS:
                self.stats['mechanism_ops'] += 1
                return self.do_eq(ev, kind)
            return self.do_edit(ev, kind)

    def call(self, fault, f):
        """Run one real call with the fault plan armed -> ('ok', None) | ('exc', exception), fired.

        vle.py contains bare `except:` clauses; an alarm delivered inside one of them would be
        swallowed, so the kernel's one-shot step timer is given a repeat interval for the duration
        of the call and put back afterwards."""
        rem, _ = signal.getitimer(signal.ITIMER_REAL)
        if rem > 0:
            signal.setitimer(signal.ITIMER_REAL, rem, 0.25)
        try:
            with faults.armed(fault) as plan, faults.observing() as obs:
                self.last_obs = obs
                try:
                    f()
                    out = ('ok', None)
                except Violation:
                    raise
                except (KeyboardInterrupt, SystemExit):
                    raise
                except Exception as e:
                    out = ('exc', e)
            fired = bool(plan is not None and plan['fired'])
        finally:
            if rem > 0:
                rem2, _ = signal.getitimer(signal.ITIMER_REAL)
                signal.setitimer(signal.ITIMER_REAL, rem2 if rem2 > 0 else 1e-3, 0)
        return out, fired

    # ---- specification -> keyword arguments (H / S are fractions of the all-liquid..all-vapour span)
    def energy_span(self, pk, sn, ev):
        """All-liquid and all-vapour enthalpy (entropy) of the stream's material, through the
        dense-row path: the l+g material is pooled, partitioning chemicals + locked liquids/solids
        go to 'l' (resp. partitioning + gases to 'g'); other rows stay as they are."""
        which = 'H' if 'H' in ev['spec'] else 'S'
        lg = sn.lg()
        liq = np.zeros(pk.n)
        gas = np.zeros(pk.n)
        liq_v = np.zeros(pk.n)
        gas_v = np.zeros(pk.n)
        for k in range(pk.n):
            if pk.lock[k] == 'g':
                gas[k] = gas_v[k] = lg[k]
            elif pk.lock[k] in ('l', 's'):
                liq[k] = liq_v[k] = lg[k]
            else:
                liq[k] = lg[k]
                gas_v[k] = lg[k]
        others = [(p, sn.rows[i]) for i, p in enumerate(sn.phases) if p not in ('l', 'g')]
        mix = pk.thermo.mixture
        f = mix.xH if which == 'H' else mix.xS
        if 'P' in ev:
            TL = TV = ev['Tref']
            PL = PV = ev['P']
        else:
            TL = TV = ev['T']
            PL = PV = sn.P
            c = Comp(pk, sn)
            if c.z is not None:
                try:
                    pb, pd = raoult_envelope(pk, c.vol, c.z, T=ev['T'])
                    if math.isfinite(pb) and math.isfinite(pd) and pb > 0 and pd > 0:
                        PL, PV = pb, pd
                except Exception:
                    pass
        lo = float(f([('l', liq), ('g', gas)] + others, TL, PL))
        hi = float(f([('l', liq_v), ('g', gas_v)] + others, TV, PV))
        return lo, hi

    def vle_kwargs(self, pk, sn, ev):
        spec = ev['spec']
        kw = {}
        for key in ('T', 'P', 'V'):
            if key in spec:
                kw[key] = ev[key]
        if 'H' in spec or 'S' in spec:
            with faults.disarmed(), np.errstate(all='ignore'):
                lo, hi = self.energy_span(pk, sn, ev)
            kw['H' if 'H' in spec else 'S'] = lo + ev['hf'] * (hi - lo)
        if 'x' in spec:
            kw['x'] = list(ev['x'])
        if 'y' in spec:
            kw['y'] = list(ev['x'])
        return kw

    def eq_callable(self, s, ev, kw):
        op = ev['op']
        if op == 'vle':
            return lambda: s.vle(**kw)
        if op == 'lle':
            args = {'T': ev['T']}
            if 'P' in ev:
                args['P'] = ev['P']
            if 'top' in ev:
                args['top_chemical'] = ev['top']
            if 'use_cache' in ev:
                args['use_cache'] = ev['use_cache']
            if 'single_loop' in ev:
                args['single_loop'] = ev['single_loop']
            return lambda: s.lle(**args)
        if op == 'sle':
            args = {'T': ev['T']}
            if 'P' in ev:
                args['P'] = ev['P']
            return lambda: s.sle(ev['solute'], **args)
        return lambda: s.vlle(ev['T'], ev['P'])

    def do_eq(self, ev, kind):
        name = ev['stream']
        pk = self.pk(name)
        s = self.streams[name]
        before = take_snap(s)
        op = ev['op']
        if op == 'vlle':
            self.n_vlle += 1
        kw = self.vle_kwargs(pk, before, ev) if op == 'vle' else None
        warm = self.age[name] > 0
        out, fired = self.call(ev.get('fault'), self.eq_callable(s, ev, kw))
        self.main_obs = self.last_obs
        if self.main_obs and self.main_obs['cap_hits']:
            self.stats['probe:solver_left_through_iteration_cap'] += 1
        if self.main_obs and self.main_obs['outer_capped']:
            self.stats['probe:outermost_solver_left_through_iteration_cap'] += 1
        if self.main_obs and (self.main_obs['outer_capped'] or self.main_obs['last'].get('aitken')):
            self.stats['probe:result_from_unconverged_solver'] += 1
        if fired:
            self.stats['fault:' + ev['fault']['kind']] += 1
            self.stats['fault_site:' + ev['fault']['site']] += 1
        self.age[name] += 1
        self.last_spec[name] = ev.get('spec', op)
        if out[0] == 'exc':
            e = out[1]
            self.stats[f'exc:{kind}:{type(e).__name__}'] += 1
            self.stats['calls_raised'] += 1
            if fired:
                self.stats['calls_raised_after_fault'] += 1
            obs = ['exc', type(e).__name__]
            if ev.get('ftwin') and not ev.get('fault'):
                self.fresh_twin_stat(ev, name, before, kw, None)
            self.twin_step(ev, name, kw, None, None, None)
            return obs
        self.stats['calls_returned'] += 1
        self.stats['ok:' + kind] += 1
        if fired:
            self.stats['returned_after_fault'] += 1     # a swallowed / recovered fault
        if warm:
            self.stats['returned_on_warm_solver'] += 1
        try:
            after = take_snap(s)
        except Exception as e:
            self.fail('corrupt-object', f'{name}: state unreadable after {kind}: {type(e).__name__}: {e}')
        with faults.disarmed(), np.errstate(all='ignore'):
            if self.prop == 'C03':
                self.c03_check(ev, name, pk, before, after)
            elif self.prop == 'C04' and op == 'vle':
                self.c04_check(ev, name, pk, before, after, kw)
        if ev.get('ftwin'):
            self.fresh_twin_stat(ev, name, before, kw, after)
        self.twin_step(ev, name, kw, before, after, pk)
        return ['ok', fl(after.T), fl(after.P), rows_digest(after)]

    # ------------------------------------------------------------ C03
    def c03_domain(self, pk, sn):
        if not (np.all(np.isfinite(sn.rows)) and np.all(sn.rows >= 0.)):
            return False
        tot = sn.totals()
        nz = tot[tot > 0.]
        if nz.size == 0:
            return False
        return bool(np.all(nz >= FLOW_MIN * (1 - 1e-6)) and np.all(nz <= FLOW_MAX * (1 + 1e-6)))

    def c03_check(self, ev, name, pk, before, after):
        if not self.c03_domain(pk, before):
            self.stats['c03:skip_input_outside_domain'] += 1
            return
        self.stats['c03:checked'] += 1
        tb, ta = before.totals(), after.totals()
        for k in range(pk.n):
            tol = 1e-9 * abs(tb[k]) + 1e-12
            if not abs(ta[k] - tb[k]) <= tol:
                self.fail('conservation',
                          f"{name}: {ev['op']}{'(' + ev['spec'] + ')' if 'spec' in ev else ''} changed the total of "
                          f"{pk.ids[k]} from {tb[k]!r} to {ta[k]!r}",
                          {'before': before.to_json(), 'after': after.to_json(), 'event': ev})
        if not np.all(after.rows >= -1e-12):
            i, k = np.argwhere(~(after.rows >= -1e-12))[0]
            if LEVER_REGION in self.regions and self.lever_clip(ev, pk, after):
                self.stats['region:' + LEVER_REGION] += 1
                return
            self.fail('negative-flow',
                      f"{name}: {ev['op']} left {after.rows[i, k]!r} kmol/hr of {pk.ids[k]} in phase "
                      f"{after.phases[i]}",
                      {'before': before.to_json(), 'after': after.to_json(), 'event': ev})
        if ev['op'] == 'vle':
            for k in pk.gas:
                # entirely in the gas phase: nothing in 'l', and nothing newly outside 'g'
                if after.row('l')[k] > 1e-12:
                    self.fail('locked-phase', f"{name}: gas-only {pk.ids[k]} has {after.row('l')[k]!r} kmol/hr "
                              f"in the liquid after vle({ev['spec']})",
                              {'before': before.to_json(), 'after': after.to_json(), 'event': ev})
                for i, p in enumerate(after.phases):
                    if p in ('l', 'g'):
                        continue
                    if after.rows[i, k] > before.row(p)[k] + 1e-12:
                        self.fail('locked-phase', f"{name}: gas-only {pk.ids[k]} appeared in phase {p} after vle",
                                  {'before': before.to_json(), 'after': after.to_json(), 'event': ev})
                    if before.row(p)[k] > 0.:
                        self.stats['c03:gas_locked_material_in_row_outside_lg'] += 1
            for k in pk.heavy:
                if after.row('g')[k] > 1e-12:
                    self.fail('locked-phase', f"{name}: {pk.lock[k]}-only {pk.ids[k]} has {after.row('g')[k]!r} "
                              f"kmol/hr in the gas after vle({ev['spec']})",
                              {'before': before.to_json(), 'after': after.to_json(), 'event': ev})

    def lever_clip(self, ev, pk, after):
        """Known finding LEVER_REGION (judged at the oracle): VLE._lever_rule accepts a split fraction up
        to 1e-5 outside [0, 1], clips it, and writes liquid = total - vapour: the phase that should be
        empty keeps entries of both signs that cancel (|sum| and each entry <= 1e-5 of the feed)."""
        if ev.get('op') != 'vle' or ev.get('spec') not in ('Tx', 'Px', 'Ty', 'Py'):
            return False
        F = float(sum(after.lg()[k] for k in pk.vol))
        if not F > 0:
            return False
        for ph in ('l', 'g'):
            row = np.array([after.row(ph)[k] for k in pk.vol])
            if np.any(row < -1e-12):
                if not (abs(float(row.sum())) <= 2e-5 * F and float(np.max(np.abs(row))) <= 2e-5 * F):
                    return False
        return True

    # ------------------------------------------------------------ C04
    # Tolerance clauses are evaluated as (clause, residual, unit) triples; a clause holds when
    # residual <= MULT[clause] * unit.  A failing tolerance clause is judged DIFFERENTIALLY against
    # the history-free baseline (same call on a brand-new stream built from the same observable
    # state): the unchanged tree itself misses its specifications on roughly one fresh in-domain call
    # in a thousand (iteration caps of 20 with checkiter=False return unconverged values silently) -
    # that baseline defect is the listed known finding of region BASELINE_REGION; everything the
    # fresh stream gets right and the aged / fault-recovered one gets wrong is a violation.

    def rec(self, out, clause, resid, unit, msg, **extra):
        out.append({'clause': clause, 'resid': float(resid), 'unit': float(unit), 'msg': msg, 'extra': extra})

    def c04_in_domain(self, cb):
        if not cb.clean or not (1 <= len(cb.vol) <= 5) or not cb.F > 0.:
            return 'outside_domain'
        if (cb.F_gas + cb.F_heavy) > 0.25 * (cb.F_vol + cb.F_gas + cb.F_heavy):
            return 'locked_not_small'
        return None

    def c04_exact(self, ev, name, after, detail):
        """(1) the specified temperature / pressure ARE the stream's temperature / pressure."""
        spec = ev['spec']
        if 'T' in spec and not after.T == ev['T']:
            self.fail('spec-T', f"{name}: vle({spec}) with T={ev['T']!r} left stream.T = {after.T!r}", detail)
        if 'P' in spec and not after.P == ev['P']:
            self.fail('spec-P', f"{name}: vle({spec}) with P={ev['P']!r} left stream.P = {after.P!r}", detail)
        if not (math.isfinite(after.T) and math.isfinite(after.P) and after.T > 0 and after.P > 0):
            self.fail('spec-T' if 'P' in spec else 'spec-P',
                      f"{name}: vle({spec}) returned T={after.T!r}, P={after.P!r}", detail)
        if not np.all(np.isfinite(after.rows)):
            self.fail('spec-H' if 'H' in spec else 'spec-S' if 'S' in spec else 'spec-V',
                      f'{name}: vle({spec}) returned non-finite flows', detail)

    def c04_residuals(self, ev, name, pk, before, after, kw, count=True):
        """All tolerance clauses of C04 that apply to this call -> list of records."""
        out = []
        spec = ev['spec']
        cb = Comp(pk, before)
        mix = pk.thermo.mixture
        rows_after = [(p, after.rows[i]) for i, p in enumerate(after.phases)]
        F_mass = float(np.sum(pk.MW * after.totals()))
        # (2) specified enthalpy / entropy reproduced by the result (dense-row path)
        if ('H' in spec or 'S' in spec) and F_mass > 0:
            which = 'H' if 'H' in spec else 'S'
            val = float((mix.xH if which == 'H' else mix.xS)(rows_after, after.T, after.P))
            resid = abs(val - kw[which]) / F_mass
            Cn = float(mix.xCn(rows_after, after.T, after.P))        # kJ/hr/K
            noise = entropy_noise_of(pk, after) / F_mass if which == 'S' else 0.
            unit = None
            if 'P' in spec:
                # set_PH / set_PS end with a lever step (exact for H, first order for S) or with
                # xsolve_T_at_HP / _SP whose temperature resolution is Mixture.T_tol; the bracketing
                # solve stops at H_hat_tol / S_hat_tol
                unit = VLE_HHAT_TOL + (Cn if which == 'H' else Cn / after.T) / F_mass * MIX_T_TOL + noise
                clause = 'spec-' + which
            else:
                # IQ_interpolation on P stops at |dP| < P_tol or |residual| < 1e-6: the residual is
                # bounded by the LOCAL slope d(hat)/dP times P_tol; the slope needs an independent flash
                slope = self.local_slope_P(pk, cb, before, after, which)
                clause = 'spec-' + which + '-T'
                if slope is None:
                    if count:
                        self.stats['c04:skip_' + clause + '_no_independent_flash'] += 1
                else:
                    unit = VLE_HHAT_TOL + slope * VLE_P_TOL + noise
            if unit is not None:
                self.rec(out, clause, resid, unit,
                         f"{name}: vle({spec}) asked for {which}={kw[which]!r} but the resulting stream has "
                         f"{which}={val!r} (per kg: {resid:.3g})")
        family_ok = (pk.family is not None and pk.simple_K and cb.F_gas == 0. and cb.F_heavy == 0.
                     and cb.z is not None and float(cb.z.min()) >= 0.02 and len(cb.vol) >= 2)
        # (3) specified vapour fraction met within the solver's resolution (family mixtures)
        # ... only where the RESULT lies inside the property's window too (T 280-450 K, P 2e4-1e6 Pa): a PV / TV
        # specification inside the window can be answered outside it, where nothing is claimed
        res_in_window = (self.win['T'][0] <= float(after.T) <= self.win['T'][1]
                         and self.win['P'][0] <= float(after.P) <= self.win['P'][1])
        if 'V' in spec and family_ok and self.win['V'][0] < ev['V'] < self.win['V'][1] and res_in_window:
            self.c04_vspec(out, ev, name, pk, cb, after, count)
        # (4) phase boundaries and iso-fugacity at specified T and P (family mixtures)
        if spec == 'TP' and family_ok:
            self.c04_tp(out, ev, name, pk, cb, after, count)
        # (5) ideal package: independent Raoult / Rachford-Rice split at the resulting T, P
        if pk.ideal:
            self.c04_ideal(out, ev, name, pk, cb, after, count)
        return out

    def c04_check(self, ev, name, pk, before, after, kw):
        cb = Comp(pk, before)
        detail = {'before': before.to_json(), 'after': after.to_json(), 'event': ev,
                  'kwargs': {k: (v if not isinstance(v, float) else float(v)) for k, v in kw.items()}}
        # T / P clause: every stream composition with 1-5 volatile chemicals, wherever they sit
        tot = before.totals()
        if cb.clean and 1 <= sum(1 for k in pk.vol if tot[k] > 0.) <= 5:
            self.stats['c04:exact_checked'] += 1
            self.c04_exact(ev, name, after, detail)
        why = self.c04_in_domain(cb)
        if why:
            self.stats['c04:skip_' + why] += 1
            return
        self.stats['c04:checked'] += 1
        self.cur_key = (name, ev['spec'])
        self.checked_keys.add(self.cur_key)
        recs = self.c04_residuals(ev, name, pk, before, after, kw)
        for r in recs:
            self.stats['c04:' + r['clause']] += 1
        if self.calib:
            log = getattr(self, 'resid_log', None)
            if log is not None:
                for r in recs:
                    log[r['clause']].append((r['resid'] / r['unit'] if r['unit'] else float('inf'),
                                             r['resid'], r['unit'], r['msg']))
            return
        bad = [r for r in recs if not r['resid'] <= MULT[r['clause']] * r['unit']]
        if not bad:
            return
        # differential judgement against the history-free baseline
        base = None
        try:
            fresh = self.fresh_from(name, before)
            out, _ = self.call(None, self.eq_callable(fresh, ev, kw))
            if out[0] == 'ok':
                fa = take_snap(fresh)
                base = {r['clause']: r for r in self.c04_residuals(ev, name, pk, before, fa, kw, count=False)}
        except Violation:
            raise
        except Exception:
            base = None
        for r in bad:
            bound = MULT[r['clause']] * r['unit']
            d = dict(detail, **r['extra'])
            b = base.get(r['clause']) if base else None
            msg = r['msg'] + (f" (residual {r['resid']:.6g}, bound {bound:.6g} = {MULT[r['clause']]:g} x solver "
                              f"resolution {r['unit']:.3g})")
            if b is not None and not b['resid'] <= MULT[b['clause']] * b['unit']:
                # a brand-new stream given the same input misses the clause as well: baseline defect
                d['fresh_stream_residual'] = b['resid']
                self.baseline_defect(r['clause'], msg + ' [a fresh stream misses it too: '
                                     f"residual {b['resid']:.6g}]", d)
            elif not ev.get('fault') and self.capped(self.main_obs, d):
                pass
            else:
                d['fresh_stream_residual'] = b['resid'] if b else None
                self.fail(r['clause'], msg + (f" [a fresh stream given the same input meets it: residual "
                                              f"{b['resid']:.6g}]" if b else ' [fresh stream: no result]'), d)

    def capped(self, obs, detail=None):
        """Second identification of the listed known finding KF-C04-4, by call site: during the judged
        call the OUTERMOST solver, or the LAST inner composition solve (aitken), was seen (seam S3, passive) to leave
        unconverged - through its iteration cap or its 'error is growing' exit - which thermosteam lets
        pass silently (checkiter=False).  The result of such a call is unconverged by construction; a missed
        tolerance clause is then that finding, whether or not a brand-new stream happens to converge.
        Not applied to a call that carries an injected fault: there an unconverged exit may be the
        consequence of a wrong recovery path, which is exactly what the fault is injected to find."""
        if CAP_REGION not in self.regions or not obs or not (obs.get('outer_capped') or obs.get('last', {}).get('aitken')):
            return False
        self.stats['region:' + CAP_REGION] += 1
        return True

    def baseline_defect(self, clause, msg, detail):
        """The history-free baseline itself misses the clause (known finding BASELINE_REGION)."""
        if BASELINE_REGION in self.regions:
            self.stats['region:' + BASELINE_REGION] += 1
            self.stats['baseline:' + clause] += 1
            self.n_baseline += 1
            self.baseline_keys.add(self.cur_key)
            return
        self.fail(clause, msg, detail)

    def reference_flash(self, pk, cb, T, P):
        """Independent equilibrium split of the l+g material at (T, P) -> (l, v) dense rows, or None
        when no independent flash is available for this package / composition."""
        idx = cb.vol
        if pk.ideal and cb.F_solute == 0.:
            F = cb.F
            z = np.array([cb.lg[k] for k in idx]) / F
            _, l, v = rachford_rice(z, psat_vec(pk, idx, T) / P, cb.F_gas / F, 0.)
        elif pk.family is not None and pk.simple_K and cb.F_gas == 0. and cb.F_heavy == 0. and len(idx) >= 2:
            F = cb.F_vol
            _, l, v, ok = gamma_flash(pk, idx, cb.z, T, P)
            if not ok:
                return None
        else:
            return None
        liq = np.zeros(pk.n)
        gas = np.zeros(pk.n)
        for j, k in enumerate(idx):
            liq[k] = l[j] * F
            gas[k] = v[j] * F
        for k in pk.gas:
            gas[k] = cb.lg[k]
        for k in pk.heavy:
            liq[k] = cb.lg[k]
        return liq, gas

    def local_slope_P(self, pk, cb, before, after, which):
        """|d(H or S per kg)/dP| of the equilibrium curve at the result, by an independent flash."""
        T, P = after.T, after.P
        if not P > 100. * VLE_P_TOL or cb.N_eff < 2:
            return None
        h = max(1e-4 * P, VLE_P_TOL)
        mix = pk.thermo.mixture
        f = mix.xH if which == 'H' else mix.xS
        others = [(p, after.rows[i]) for i, p in enumerate(after.phases) if p not in ('l', 'g')]
        vals = []
        for Pq in (P - h, P + h):
            r = self.reference_flash(pk, cb, T, Pq)
            if r is None:
                return None
            vals.append(float(f([('l', r[0]), ('g', r[1])] + others, T, Pq)))
        F_mass = float(np.sum(pk.MW * after.totals()))
        return abs(vals[1] - vals[0]) / (2 * h) / F_mass

    def c04_vspec(self, out, ev, name, pk, cb, after, count):
        spec = ev['spec']
        idx, z = cb.vol, cb.z
        V_spec = ev['V']
        T, P = after.T, after.P
        g = after.row('g')
        V_stream = float(sum(g[k] for k in idx)) / cb.F_vol
        V0, _, _, ok0 = gamma_flash(pk, idx, z, T, P)
        if spec == 'PV':
            h = 1e-3
            Va, _, _, oka = gamma_flash(pk, idx, z, T - h, P)
            Vb, _, _, okb = gamma_flash(pk, idx, z, T + h, P)
            xtol = VLE_T_TOL
        else:
            h = max(1e-4 * P, 1.)
            Va, _, _, oka = gamma_flash(pk, idx, z, T, P - h)
            Vb, _, _, okb = gamma_flash(pk, idx, z, T, P + h)
            xtol = VLE_P_TOL
        if not (ok0 and oka and okb):
            if count:
                self.stats['c04:skip_reference_flash_not_converged'] += 1
            return
        slope = abs(Vb - Va) / (2 * h)
        unit = (VLE_V_TOL + VLE_K_TOL) + slope * xtol      # the two stopping criteria of IQ_interpolation
        self.rec(out, 'spec-V', abs(V0 - V_spec), unit,
                 f"{name}: vle({spec}) V={V_spec!r}: at the returned T={T!r}, P={P!r} the equilibrium vapour "
                 f"fraction is {V0!r}", V_equilibrium_at_result=V0, V_stream=V_stream, dV_dx=slope)
        self.rec(out, 'spec-V-stream', abs(V_stream - V_spec), unit,
                 f"{name}: vle({spec}) V={V_spec!r}: the resulting stream has vapour fraction {V_stream!r}",
                 V_equilibrium_at_result=V0, V_stream=V_stream, dV_dx=slope)

    def c04_tp(self, out, ev, name, pk, cb, after, count):
        idx, z = cb.vol, cb.z
        T, P = after.T, after.P
        pb = bubble_P(pk, idx, z, T)
        pd = dew_P(pk, idx, z, T)
        if not (math.isfinite(pb) and math.isfinite(pd) and pd <= pb * (1 + 1e-9)):
            if count:
                self.stats['c04:skip_reference_envelope'] += 1
            return
        l, g = after.row('l'), after.row('g')
        Fl = float(sum(l[k] for k in idx))
        Fg = float(sum(g[k] for k in idx))
        state = 'l' if Fg == 0. else 'g' if Fl == 0. else 'lg'
        want = 'l' if P >= pb else 'g' if P <= pd else 'lg'
        # all liquid at or above the bubble pressure, all vapour at or below the dew pressure, two
        # phases in between; residual = how far (in ln P) the result is on the wrong side of a boundary
        d = 0. if state == want else min(abs(math.log(P / pb)), abs(math.log(P / pd)))
        self.rec(out, 'phase-boundary', d, VLE_K_TOL,
                 f"{name}: vle(TP) at T={T!r}, P={P!r} (bubble pressure {pb!r}, dew pressure {pd!r}) returned "
                 f"state '{state}' where '{want}' is required", P_bubble=pb, P_dew=pd, result_state=state)
        m = MULT['phase-boundary'] * VLE_K_TOL
        if state == 'lg' and pd * (1 + m) < P < pb * (1 - m):
            chems = [pk.chems[k] for k in idx]
            x = np.array([l[k] for k in idx]) / Fl
            y = np.array([g[k] for k in idx]) / Fg
            f_l = np.asarray(tmo_eq.LiquidFugacities(chems, pk.thermo)(x.copy(), T, P), dtype=float)
            f_g = np.asarray(tmo_eq.GasFugacities(chems, pk.thermo)(y.copy(), T, P), dtype=float)
            if np.all(f_l > 0) and np.all(f_g > 0):
                resid = float(np.max(np.abs(np.log(f_l / f_g))))
            else:
                resid = float('inf')
            self.rec(out, 'iso-fugacity', resid, VLE_K_TOL,
                     f"{name}: vle(TP) two-phase result: liquid and vapour fugacities differ, "
                     f"max |ln(f_l/f_g)| = {resid:.3g}", f_liquid=f_l.tolist(), f_gas=f_g.tolist(),
                     P_bubble=pb, P_dew=pd)

    def c04_ideal(self, out, ev, name, pk, cb, after, count):
        spec = ev['spec']
        idx = cb.vol
        T, P = after.T, after.P
        if cb.F_gas or cb.F_heavy:
            if count:
                self.stats['c04:skip_ideal_locked_present'] += 1     # the clause speaks of volatile chemicals
            return
        Ps = psat_vec(pk, idx, T)
        K = Ps / P
        if cb.N_eff == 1 and (spec != 'TP' or abs(float(K[0]) - 1.) < 1e-6):
            if count:
                self.stats['c04:skip_ideal_pure_at_saturation'] += 1
            return
        F = cb.F
        z = np.array([cb.lg[k] for k in idx]) / F
        V, l_ref, v_ref = rachford_rice(z, K, 0., 0.)
        g = after.row('g')
        v = np.array([g[k] for k in idx]) / F
        resid = float(np.max(np.abs(v - v_ref)))
        clause = 'ideal-RR' if spec == 'TP' else 'ideal-RR-' + ('V' if 'V' in spec else 'HS' if ('H' in spec or 'S' in spec) else 'xy')
        self.rec(out, clause, resid, VLE_K_TOL + VLE_V_TOL,
                 f"{name}: ideal package vle({spec}) at T={T!r}, P={P!r}: vapour flows differ from the "
                 f"Raoult / Rachford-Rice split by {resid:.3g} of the feed",
                 rachford_rice={'V': V, 'K': K.tolist(), 'v_ref': (v_ref * F).tolist(), 'v': (v * F).tolist()})

    # ------------------------------------------------------------ twins
    def fresh_twin_stat(self, ev, name, before, kw, after):
        """History independence is NOT promised by C03/C04: statistic only."""
        try:
            with faults.disarmed():
                t = self.fresh_from(name, before)
                out, _ = self.call(None, self.eq_callable(t, ev, kw))
                if out[0] == 'exc':
                    self.stats['ftwin:aged_ok_fresh_raises' if after is not None else 'ftwin:both_raise'] += 1
                    return
                if after is None:
                    self.stats['ftwin:aged_raises_fresh_ok'] += 1
                    return
                ta = take_snap(t)
            F = float(after.totals().sum()) or 1.
            same = (ta.phases == after.phases and float(np.max(np.abs(ta.rows - after.rows))) <= 1e-6 * F
                    and abs(ta.T - after.T) <= 1e-4 and abs(ta.P - after.P) <= 1e-6 * after.P)
            self.stats['ftwin:agree' if same else 'ftwin:differ'] += 1
        except Violation:
            raise
        except Exception:
            self.stats['ftwin:error'] += 1

    def mirror_edit(self, ev):
        k = self.k
        e = dict(ev)
        if ev['op'] in ('set_flow', 'set_chem'):
            e['value'] = ev['value'] * k
        elif ev['op'] == 'set_rows':
            e['rows'] = {p: [v * k for v in row] for p, row in ev['rows'].items()}
        return e

    def scaling_residuals(self, ev, name, pk, before, after, ta, k):
        """Scaling clause records: twin image `ta` against k x the main image `after`."""
        out = []
        F = float(after.totals().sum())
        if not F > 0 or ta.phases != after.phases:
            return out
        spec = ev['spec']
        resid = float(np.max(np.abs(ta.rows - k * after.rows))) / (k * F)
        grp = '-H' if 'H' in spec else '-S' if 'S' in spec else ''
        u_flow, u_T, u_P = VLE_K_TOL + VLE_V_TOL, VLE_T_TOL, VLE_P_TOL / after.P
        if grp == '-S':
            # the entropy models' own resolution limits how well T (and with it the split) is fixed
            noise = entropy_noise_of(pk, after)
            rows_after = [(p, after.rows[i]) for i, p in enumerate(after.phases)]
            Cn = float(pk.thermo.mixture.xCn(rows_after, after.T, after.P))
            try:
                lo, hi = self.energy_span(pk, before, ev)
                span = abs(hi - lo)
            except Exception:
                span = 0.
            u_T += noise / (Cn / after.T) if Cn > 0 else 0.
            u_flow += noise / span if span > 0 else 0.
        self.rec(out, 'scaling' + grp, resid, u_flow,
                 f"{name}: vle({spec}) on the same history with all flows x {k}: product flows are "
                 f"not {k} x the original ones (max deviation {resid:.3g} of the feed)")
        self.rec(out, 'scaling' + grp + '-T', abs(ta.T - after.T), u_T,
                 f"{name}: vle({spec}) with all flows x {k}: T = {ta.T!r} instead of {after.T!r}")
        self.rec(out, 'scaling' + grp + '-P', abs(ta.P / after.P - 1.), u_P,
                 f"{name}: vle({spec}) with all flows x {k}: P = {ta.P!r} instead of {after.P!r}")
        return out

    def twin_step(self, ev, name, kw, before, after, pk):
        """Scaling clause of C04: the same history on a universe with all flows x k."""
        if not self.k or name not in self.twins:
            return
        k = self.k
        t = self.twins[name]
        tb = take_snap(t)
        kw2 = self.vle_kwargs(self.pk(name), tb, ev) if ev['op'] == 'vle' else None
        out, _ = self.call(ev.get('fault'), self.eq_callable(t, ev, kw2))
        self.twin_obs = self.last_obs
        if out[0] == 'exc' or after is None:
            if (out[0] == 'exc') != (after is None):
                self.stats['scale:only_one_side_raised'] += 1
            self.resync_twin(name)
            return
        ta = take_snap(t)
        if self.prop == 'C04' and ev['op'] == 'vle':
            cb = Comp(pk, before)
            if self.c04_in_domain(cb) is None and ta.phases == after.phases:
                with faults.disarmed(), np.errstate(all='ignore'):
                    self.judge_scaling(ev, name, pk, before, after, tb, ta, kw, kw2, k)
            else:
                self.stats['scale:skip'] += 1
        self.resync_twin(name)

    def judge_scaling(self, ev, name, pk, before, after, tb, ta, kw, kw2, k):
        self.cur_key = (name, ev['spec'])
        self.checked_keys.add(self.cur_key)
        recs = self.scaling_residuals(ev, name, pk, before, after, ta, k)
        for r in recs:
            self.stats['c04:' + r['clause']] += 1
        if self.calib:
            log = getattr(self, 'resid_log', None)
            if log is not None:
                for r in recs:
                    log[r['clause']].append((r['resid'] / r['unit'] if r['unit'] else float('inf'),
                                             r['resid'], r['unit'], r['msg']))
            return
        bad = [r for r in recs if not r['resid'] <= MULT[r['clause']] * r['unit']]
        if bad and 'T' in ev['spec'] and 'P' not in ev['spec'] and abs(ta.P - after.P) <= 2. * VLE_P_TOL:
            # the pressure is an OUTPUT of this call, found to within P_tol; two runs may legitimately sit P_tol
            # apart on either side, and the split follows the pressure.  The sensitivity is measured here (two
            # brand-new T-P flashes of the same material around the returned pressure), not assumed
            extra = self.flow_sensitivity_to_P(name, before, after) * 2. * VLE_P_TOL
            still = []
            for r in bad:
                if r['clause'].startswith('scaling') and not r['clause'].endswith(('-T', '-P')) \
                        and r['resid'] <= MULT[r['clause']] * r['unit'] + extra:
                    self.stats['scaling:within_pressure_resolution'] += 1
                else:
                    still.append(r)
            bad = still
        if not bad:
            return
        detail = {'k': k, 'before': before.to_json(), 'after': after.to_json(),
                  'twin_before': tb.to_json(), 'twin_after': ta.to_json(), 'event': ev}
        base = None
        try:
            f1 = self.fresh_from(name, before)
            f2 = self.fresh_from(name, tb)
            o1, _ = self.call(None, self.eq_callable(f1, ev, kw))
            o2, _ = self.call(None, self.eq_callable(f2, ev, kw2))
            if o1[0] == 'ok' and o2[0] == 'ok':
                base = {r['clause']: r for r in
                        self.scaling_residuals(ev, name, pk, before, take_snap(f1), take_snap(f2), k)}
        except Violation:
            raise
        except Exception:
            base = None
        for r in bad:
            bound = MULT[r['clause']] * r['unit']
            b = base.get(r['clause']) if base else None
            msg = r['msg'] + (f" (residual {r['resid']:.6g}, bound {bound:.6g} = {MULT[r['clause']]:g} x solver "
                              f"resolution {r['unit']:.3g})")
            d = dict(detail, fresh_pair_residual=(b['resid'] if b else None))
            if b is not None and not b['resid'] <= MULT[b['clause']] * b['unit']:
                self.baseline_defect(r['clause'], msg + f" [a fresh pair of streams deviates too: {b['resid']:.6g}]", d)
            elif not ev.get('fault') and (self.capped(self.main_obs, d) or self.capped(self.twin_obs, d)):
                pass
            else:
                self.fail(r['clause'], msg + (f" [a fresh pair of streams given the same inputs agrees: "
                                              f"{b['resid']:.6g}]" if b else ' [fresh pair: no result]'), d)

    def flow_sensitivity_to_P(self, name, before, after):
        """max |d(flow per unit feed)| / dP around the returned state, from two fresh T-P flashes"""
        F = float(after.totals().sum())
        if not F > 0:
            return 0.
        dP = max(5., 1e-4 * after.P)
        rows = []
        for P in (after.P - dP, after.P + dP):
            try:
                f = self.fresh_from(name, before)
                f.vle(T=after.T, P=P)
                sn = take_snap(f)
                if sn.phases != after.phases:
                    return 0.
                rows.append(sn.rows)
            except Exception:
                return 0.
        return float(np.max(np.abs(rows[1] - rows[0]))) / (2. * dP * F)

    def resync_twin(self, name):
        """Make the twin's observable state exactly k x the main stream again (its solver objects,
        i.e. its own history, are kept whenever the phase set allows)."""
        if not self.k or name not in self.twins:
            return
        s, t = self.streams[name], self.twins[name]
        try:
            sn = take_snap(s)
            if tuple(t.phases) != sn.phases:
                raise ValueError('phases differ')
            for i, p in enumerate(sn.phases):
                t.imol[p] = sn.rows[i] * self.k
            t.T = sn.T
            t.P = sn.P
        except Exception:
            try:
                sn = take_snap(s)
                self.twins[name] = self.fresh_from(name, Snap(sn.phases, sn.rows * self.k, sn.T, sn.P))
                self.stats['scale:twin_rebuilt'] += 1
            except Exception:
                del self.twins[name]
                self.stats['scale:twin_dropped'] += 1

    # ------------------------------------------------------------ editors
    def do_edit(self, ev, kind):
        name = ev['stream']
        targets = [(self.streams[name], ev, False)]
        if self.k and name in self.twins:
            targets.append((self.twins[name], self.mirror_edit(ev), True))
        obs = 'ok'
        for s, e, is_twin in targets:
            try:
                self.edit_one(name, s, e, is_twin)
            except Violation:
                raise
            except Exception as ex:
                if not is_twin:
                    self.stats[f'exc:{kind}:{type(ex).__name__}'] += 1
                    obs = ['exc', type(ex).__name__]
        if self.k:
            self.resync_twin(name)
        if obs == 'ok' and ev['op'] not in ('restart', 'reset_cache'):
            try:
                sn = take_snap(self.streams[name])
                obs = ['ok', rows_digest(sn), fl(sn.T), fl(sn.P)]
            except Exception as ex:
                obs = ['unreadable', type(ex).__name__]
        return obs

    def edit_one(self, name, s, ev, is_twin):
        op = ev['op']
        pk = self.pk(name)
        if op == 'set_flow':
            s.imol[ev['phase'], ev['chem']] = ev['value']
        elif op == 'set_chem':
            for p in tuple(s.phases):
                s.imol[p, ev['chem']] = ev['value'] if p == ev['phase'] else 0.
        elif op == 'set_rows':
            for p in tuple(s.phases):
                s.imol[p] = np.array(ev['rows'][p], dtype=float)
        elif op == 'scale':
            s.scale(ev['k'])
        elif op == 'react_flash':
            rxn = tmo.Reaction({ev['reactant']: -1, ev['product']: 1}, reactant=ev['reactant'], X=ev['X'],
                               chemicals=pk.compiled)
            if not is_twin:
                self.stats['fault:reactive_flash_by_another_unit'] += 1
            with np.errstate(all='ignore'):
                s.vle(T=ev['T'], P=ev['P'], liquid_conversion=rxn)
        elif op == 'to_phase':
            total = dense(s.mol)
            s.empty()
            s.imol[ev['phase']] = total
        elif op == 'set_phases':
            s.phases = tuple(ev['phases'])
            if not is_twin:
                self.age[name] = 0           # the phases setter replaces the solver caches
        elif op == 'set_T':
            s.T = ev['T']
        elif op == 'set_P':
            s.P = ev['P']
        elif op == 'restart':
            new = restart_copy(s)
            if is_twin:
                self.twins[name] = new
            else:
                self.streams[name] = new
                self.age[name] = 0
                self.stats['fault:restart'] += 1
        elif op == 'reset_cache':
            s.reset_cache()
            if not is_twin:
                self.age[name] = 0
        else:
            raise ValueError(op)
        assert pk is not None

    # ------------------------------------------------------------ measures
    def abstract_state(self):
        out = []
        for name in sorted(self.streams):
            s = self.streams[name]
            try:
                sn = take_snap(s)
                holds = tuple(bool(sn.rows[i].any()) for i in range(len(sn.phases)))
                nz = tuple(int(k) for k in np.nonzero(sn.totals())[0])
                warm = tuple(bool(getattr(getattr(s, c, None), 'value', None) is not None)
                             for c in ('_vle_cache', '_lle_cache', '_sle_cache'))
                out.append((self.pkg_of[name], sn.phases, holds, nz, warm, self.last_spec[name]))
            except Exception:
                out.append((name, 'err'))
        return out

    def shared_touch(self, ev):
        n = ev.get('stream')
        if n in self.users and self.users[n] > 1:
            return [ev.get('task', '-').split('#')[0], ev.get('op'), ev.get('spec', '')]
        return None

    def finish(self):
        # Sporadic baseline misses are a listed finding (they recur on the stream / specification pair
        # that shows them); a run in which MANY different stream / specification combinations miss their
        # clauses on fresh streams too is not that finding: something broke for fresh objects as well.
        nb, nc = len(self.baseline_keys), len(self.checked_keys)
        if nb > max(2, 0.34 * nc):
            self.fail('baseline-rate', f'{nb} of the {nc} (stream, specification pair) combinations judged in this '
                      'run miss a tolerance clause on brand-new streams as well: not the sporadic baseline defect '
                      'of the known finding',
                      {'baseline_by_clause': {k: v for k, v in self.stats.items() if k.startswith('baseline:')},
                       'combinations': sorted(list(k) for k in self.baseline_keys)})


# ====================================================================== known-finding regions
# A region is a predicate over (world state, event) that says exactly when a listed defect can
# fire; with the region id in cfg['regions'] the generator does not produce such events.

def _single_partitioning(world, ev):
    return world.n_eff(ev['stream']) == 1


def _stored(world, ev, key):
    """the stream already holds the specified T (P): a specification that is not stored cannot show"""
    try:
        s = world.streams[ev['stream']]
        return float(s.T if key == 'T' else s.P) == ev[key]
    except Exception:
        return False


BASELINE_REGION = 'C04-fresh-baseline-miss'
CAP_REGION = 'C04-silent-iteration-cap'
WEGSTEIN_REGION = 'C04-dew-fallback-after-wegstein-error'
LEVER_REGION = 'C03-lever-rule-clip'

REGIONS = {
    # judged at the oracle (EqWorld.baseline_defect), not at generation: the same call on a brand-new
    # stream built from the same observable state misses the same tolerance clause
    BASELINE_REGION: lambda w, ev: False,
    # judged at the oracle (EqWorld.lever_clip)
    LEVER_REGION: lambda w, ev: False,
    # VLE._set_TV_chemical stores Psat(T) in the stream's TEMPERATURE (vle.py:465)
    'C04-TV-single-volatile': lambda w, ev: (ev.get('op') == 'vle' and ev.get('spec') == 'TV'
                                             and _single_partitioning(w, ev)),
    # VLE._set_TH_chemical / _set_TS_chemical never store the specified T (vle.py:513, :589)
    'C04-THS-single-volatile': lambda w, ev: (ev.get('op') == 'vle' and ev.get('spec') in ('TH', 'TS')
                                              and _single_partitioning(w, ev) and not _stored(w, ev, 'T')),
    # VLE.set_Tx / set_Px / set_Ty / set_Py never store the specified T (P) (vle.py:622-644)
    'C04-xy-spec-not-stored': lambda w, ev: (ev.get('op') == 'vle' and ev.get('spec') in ('Tx', 'Px', 'Ty', 'Py')
                                             and not _stored(w, ev, ev['spec'][0])),
}


# ====================================================================== restart (F4)

class _Pickler(pickle.Pickler):
    """A flowsheet is saved as a whole: property packages keep their identity."""

    def persistent_id(self, obj):
        if isinstance(obj, (tmo.Thermo, tmo.IdealThermo)):
            for pid in PKG_SPECS:
                if ('pkg', pid) in _cache and _cache[('pkg', pid)].thermo is obj:
                    return ('eqthermo', pid)
        return None


class _Unpickler(pickle.Unpickler):
    def persistent_load(self, pid):
        return package(pid[1]).thermo


def restart_copy(obj):
    buf = io.BytesIO()
    _Pickler(buf, protocol=pickle.HIGHEST_PROTOCOL).dump(obj)
    buf.seek(0)
    from sim import universe as _u
    with _u.no_compiled_cache_growth():
        return _Unpickler(buf).load()


# ====================================================================== shrinking aid

def simplify_event(ev):
    out = []
    if ev.get('ftwin'):
        e = dict(ev)
        e.pop('ftwin')
        out.append(e)
    if ev.get('op') == 'vle':
        for key, nd in (('T', 1), ('P', -2), ('Tref', 0), ('V', 2), ('hf', 2)):
            if key in ev:
                v = round(ev[key], nd)
                if v != ev[key] and v > 0:
                    e = dict(ev)
                    e[key] = float(v)
                    out.append(e)
    if ev.get('op') == 'set_rows':
        for p, row in ev['rows'].items():
            for k, v in enumerate(row):
                if v:
                    e = dict(ev)
                    e['rows'] = {q: list(r_) for q, r_ in ev['rows'].items()}
                    e['rows'][p][k] = 0.0
                    out.append(e)
    return out
