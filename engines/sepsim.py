"""sepsim: separator tasks re-running the stream-level separation helpers on the SAME outlet streams
over changing feeds, with leftovers ("dirty outlets", F5), strict on/off (F7), warm persistent
multi-streams for the vle/lle wrappers and model faults inside the wrappers' flash (C20).

The helpers write into caller-supplied outlets and compute top = feed - bottom, so whatever an
outlet still holds from the previous run is an input they do not reset on every branch.
"""
import warnings

import numpy as np

from sim import env
from sim.kernel import BaseWorld, Violation

env.import_thermosteam()
import thermosteam as tmo  # noqa: E402
from thermosteam.exceptions import InfeasibleRegion  # noqa: E402
from thermosteam import separations as sep  # noqa: E402
from sim import faults, universe  # noqa: E402

faults.install_solver_seams()
warnings.filterwarnings('ignore')
NAME = 'sepsim'

FLOWS = [0.0, 0.0, 0.5, 1.0, 2.0, 5.0, 10.0, 20.0, 0.125, 100.0]
VOLATILE = ['Water', 'Ethanol', 'Methanol', 'Octane']


def make_cfg(rng, prop, tier):
    lo, hi = tier.get('steps', (12, 35))
    pkgid = rng.choice(['A', 'A', 'B', 'C'])
    n = len(universe.PACKAGES[pkgid][0])
    streams = []
    for i in range(rng.randint(4, 7)):
        streams.append({'name': f's{i}', 'phase': rng.choice(['l', 'l', 'l', 'g']),
                        'T': rng.choice([298.15, 320.0, 350.0]),
                        'flows': [rng.choice(FLOWS) for _ in range(n)]})
    ids = universe.PACKAGES[pkgid][0]
    vol = [c for c in ids if c in VOLATILE]
    pIDs = rng.sample(vol, rng.randint(1, len(vol)))
    rest = [c for c in ids if c not in pIDs]
    rng.shuffle(rest)
    cut1 = rng.randint(0, len(rest))
    cut2 = rng.randint(cut1, len(rest))
    pspec = {'IDs': pIDs, 'top_chemicals': rest[:cut1], 'bottom_chemicals': rest[cut1:cut2]}
    return {'world': 'sep', 'steps': rng.randint(lo, hi), 'pkg': pkgid, 'streams': streams, 'partition_spec': pspec,
            'faults': rng.random() < 0.3, 'dirty': rng.random() < 0.6,
            'equilibrium': rng.random() < 0.5,
            'regions': list(tier.get('regions', [])), 'step_timeout': 30.0}


def World(prop, cfg):
    return SepWorld(prop, cfg)


def close(a, b, rtol=1e-9, atol=1e-10):
    a = np.asarray(a, float)
    b = np.asarray(b, float)
    return a.shape == b.shape and bool(np.all(np.abs(a - b) <= atol + rtol * np.maximum(np.abs(a), np.abs(b))))


class SepWorld(BaseWorld):

    def __init__(self, prop, cfg):
        super().__init__(prop, cfg)
        universe.reset_globals()
        self.regions = set(cfg.get('regions', []))
        self.pk = universe.package(cfg['pkg'])
        tmo.settings.set_thermo(self.pk.thermo)     # chemical_splits builds its result on the default package
        self.S = {}
        for sp in cfg['streams']:
            self.S[sp['name']] = tmo.Stream(None, flow=np.array(sp['flows'], float), phase=sp['phase'], T=sp['T'],
                                            thermo=self.pk.thermo)
        # outlets reserved for the partition helper: re-run on the same two streams with one assignment of
        # chemicals (partitioned / forced to the top / forced to the bottom / unlisted), as a unit operation does
        self.S['pt'] = tmo.Stream(None, thermo=self.pk.thermo)
        self.S['pb'] = tmo.Stream(None, thermo=self.pk.thermo)
        self.ms = {}      # persistent multi-streams handed to the vle / lle wrappers
        self.n = 0

    def mol(self, name):
        s = self.S[name]
        d = s.imol.data
        if isinstance(s, tmo.MultiStream):
            return np.array(d.to_array(), float).sum(0)
        return np.array(d.to_array(), float)

    # ------------------------------------------------------------ generation
    def pick(self, r, k):
        names = sorted(n for n in self.S if n not in ('pt', 'pb'))
        if len(names) < k:
            return None
        return r.sample(names, k)

    def gen(self, rngs):
        r = rngs.args
        ops = ['mix_and_split', 'mix_and_split', 'moisture', 'mix_split_moisture', 'partition', 'partition',
               'partition', 'phase_split', 'chemical_splits', 'material_balance', 'set_flows', 'set_flows']
        if self.cfg['equilibrium']:
            ops += ['vle', 'lle']
        if self.cfg['dirty']:
            ops += ['dirty', 'dirty']
        pk = self.pk
        for _ in range(40):
            op = rngs.sched.choice(ops)
            ev = None
            if op in ('mix_and_split', 'mix_split_moisture'):
                k = r.randint(1, 3)
                nm = self.pick(r, k + 2)
                if not nm:
                    continue
                split = r.choice([0.0, 0.25, 0.5, 1.0]) if r.random() < 0.4 else \
                    [r.choice([0.0, 0.1, 0.5, 0.9, 1.0]) for _ in range(pk.n)]
                ev = {'op': op, 'ins': nm[:k], 'top': nm[k], 'bottom': nm[k + 1], 'split': split}
                # `ins : Iterable[Stream]`: a list, a tuple or a one-shot iterable
                form = r.choice(['list', 'list', 'tuple', 'generator', 'iterator'])
                if form != 'list':
                    ev['ins_form'] = form
                if op == 'mix_split_moisture':
                    ev['mc'] = r.choice([0.1, 0.3, 0.5, 0.8, 0.94])
                    ev['strict'] = r.choice([None, True, False])
            elif op == 'moisture':
                nm = self.pick(r, 2)
                ev = {'op': op, 'retentate': nm[0], 'permeate': nm[1], 'mc': r.choice([0.1, 0.3, 0.5, 0.8, 0.94]),
                      'strict': r.choice([None, True, False]), 'by_ID': r.random() < 0.3}
            elif op == 'partition':
                nm = self.pick(r, 1)
                ps = self.cfg['partition_spec']
                kset = r.choice([[1e-3, 0.01, 0.2, 0.629, 1.0, 1.59, 5.0, 100.0, 1e3]] * 4 +
                                [[1.0, 1.1, 1.59, 5.0, 100.0], [1.0, 0.9, 0.629, 0.2, 0.01]])   # one-sided sets too
                K = [r.choice(kset) for _ in ps['IDs']]
                ev = {'op': op, 'feed': nm[0], 'top': 'pt', 'bottom': 'pb', 'IDs': list(ps['IDs']), 'K': K,
                      'phi': r.choice([None, None, None, 0.25, 0.5, 0.9]),
                      'top_chemicals': list(ps['top_chemicals']), 'bottom_chemicals': list(ps['bottom_chemicals']),
                      'strict': r.random() < 0.3}
                if r.random() < 0.15:
                    ev['inplace'] = True     # an in-place stage: the outlets are the two phases of the feed itself
            elif op == 'phase_split':
                nm = self.pick(r, 3)
                ev = {'op': op, 'feed': nm[0], 'outlets': nm[1:], 'frac': r.choice([0.0, 0.3, 0.5, 1.0])}
            elif op == 'chemical_splits':
                nm = self.pick(r, 2)
                ev = {'op': op, 'a': nm[0], 'b': nm[1], 'use_mixed': r.random() < 0.5}
            elif op == 'material_balance':
                k = r.randint(1, min(3, pk.n))
                nm = self.pick(r, k + 2)
                if not nm:
                    continue
                ev = {'op': op, 'chemicals': r.sample(pk.ids, k), 'variable': nm[:k], 'constant_in': nm[k:k + 1],
                      'constant_out': nm[k + 1:k + 2]}
            elif op in ('set_flows', 'dirty'):
                nm = self.pick(r, 1)
                ev = {'op': op, 'stream': nm[0], 'values': [r.choice(FLOWS) for _ in range(pk.n)],
                      'T': r.choice([298.15, 320.0, 350.0])}
            elif op == 'vle':
                nm = self.pick(r, 3)
                spec = r.choice([{'V': 0.5, 'P': 101325.0}, {'T': 360.0, 'P': 101325.0}, {'V': 0.2, 'P': 2e5},
                                 {'T': 340.0, 'P': 50000.0}, {'V': 0.8, 'T': 350.0}])
                ev = {'op': op, 'feed': nm[0], 'vap': nm[1], 'liq': nm[2], 'spec': spec, 'persistent': r.random() < 0.6}
            elif op == 'lle':
                nm = self.pick(r, 3)
                ev = {'op': op, 'feed': nm[0], 'top': nm[1], 'bottom': nm[2], 'efficiency': r.choice([1.0, 1.0, 0.7, 0.0]),
                      'persistent': r.random() < 0.6}
            if ev is None or not self.pre(ev):
                continue
            if self.cfg['faults'] and ev['op'] in ('vle', 'lle', 'mix_and_split') and rngs.fault.random() < 0.3:
                ev['fault'] = {'kind': 'model_error', 'site': rngs.fault.choice(['H', 'Cn', 'V']),
                               'nth': rngs.fault.randint(1, 3), 'exc': 'RuntimeError'}
            return ev
        return {'op': 'noop'}

    def pre(self, ev):
        op = ev['op']
        if op == 'noop':
            return True
        names = []
        for k in ('top', 'bottom', 'feed', 'retentate', 'permeate', 'a', 'b', 'stream', 'vap', 'liq'):
            if k in ev:
                names.append(ev[k])
        for k in ('ins', 'outlets', 'variable', 'constant_in', 'constant_out'):
            names += ev.get(k, [])
        if any(n not in self.S for n in names):
            return False
        pk = self.pk
        if op in ('mix_and_split', 'mix_split_moisture'):
            if len({ev['top'], ev['bottom']} | set(ev['ins'])) != len(ev['ins']) + 2:
                return False
            if isinstance(ev['split'], list) and len(ev['split']) != pk.n:
                return False
            if op == 'mix_split_moisture' and 'Water' not in pk.pos:
                return False
        if op in ('moisture', 'mix_split_moisture'):
            # the moisture helpers address water by a single-phase key: documented for single-phase outlets
            for k in ('retentate', 'permeate', 'top', 'bottom'):
                if k in ev and isinstance(self.S[ev[k]], tmo.MultiStream):
                    return False
        if op == 'moisture':
            if ev['retentate'] == ev['permeate'] or 'Water' not in pk.pos:
                return False
            ret = self.mol(ev['retentate'])
            if (ret < 0).any() or (self.mol(ev['permeate']) < 0).any():
                return False
            dry = float((ret * pk.MW).sum() - ret[pk.pos['Water']] * pk.MW[pk.pos['Water']])
            if dry <= 0:
                return False
        if op == 'partition':
            if len({ev['feed'], ev['top'], ev['bottom']}) != 3:
                return False
            if any(c not in pk.pos for c in ev['IDs'] + ev['top_chemicals'] + ev['bottom_chemicals']):
                return False
            f = self.mol(ev['feed'])
            if (f < 0).any() or sum(f[pk.pos[c]] for c in ev['IDs']) <= 0:
                return False
        if op == 'phase_split':
            if len({ev['feed']} | set(ev['outlets'])) != 3:
                return False
            f = self.mol(ev['feed'])
            if (f < 0).any() or f.sum() <= 0:
                return False
        if op == 'chemical_splits':
            if ev['a'] == ev['b']:
                return False
            a, b = self.mol(ev['a']), self.mol(ev['b'])
            if (a < 0).any() or (b < 0).any() or ((a + b) == 0).any():
                return False
        if op == 'material_balance':
            names = ev['variable'] + ev['constant_in'] + ev['constant_out']
            if len(set(names)) != len(names) or any(c not in pk.pos for c in ev['chemicals']):
                return False
            idx = [pk.pos[c] for c in ev['chemicals']]
            A = np.array([self.mol(n)[idx] for n in ev['variable']]).T
            if abs(np.linalg.det(A)) < 1e-3 or np.linalg.cond(A) > 1e6:
                return False
            out = self.mol(ev['constant_out'][0])[idx]
            cin = self.mol(ev['constant_in'][0])[idx]
            x = np.linalg.solve(A, out - cin)
            if (x < 0).any():
                return False      # negative scale factors: not a physical specification
        if op in ('vle', 'lle'):
            keys = ['feed'] + (['vap', 'liq'] if op == 'vle' else ['top', 'bottom'])
            if len({ev[k] for k in keys}) != 3:
                return False
            f = self.mol(ev['feed'])
            if (f < 0).any() or f.sum() <= 0:
                return False
            if op == 'vle' and sum(f[pk.pos[c]] for c in pk.ids if c in VOLATILE) <= 0:
                return False
            if op == 'lle' and self.S[ev['feed']].phase != 'l':
                return False
        return True

    # ------------------------------------------------------------ execution
    def apply(self, ev):
        op = ev['op']
        if op == 'noop':
            return 'noop'
        if not self.pre(ev):
            return 'skip:pre'
        self.stats['op:' + op] += 1
        with warnings.catch_warnings(record=True) as wl:
            warnings.simplefilter('always')
            self._warned = wl
            return getattr(self, 'do_' + op)(ev)

    def warned_infeasible(self):
        return any('negative flow' in str(w.message) or 'infeasible' in str(w.message).lower() for w in self._warned)

    def call(self, ev, f):
        with faults.armed(ev.get('fault')) as plan:
            try:
                out = ('ok', f())
            except Violation:
                raise
            except Exception as e:
                out = ('exc', e)
        fired = bool(plan and plan['fired'])
        if fired:
            self.stats['fault:' + plan['kind']] += 1
        return out + (fired,)

    def no_negatives(self, ev, names, reported):
        for n in names:
            m = self.mol(n)
            if (m < -1e-9 * max(1.0, np.abs(m).max())).any() and not reported:
                self.fail('negative-flow', f'{ev["op"]}: outlet {n} holds a negative flow {m.tolist()} and no '
                          f'infeasibility was reported', {'event': ev})

    def balance(self, ev, ins_before, outs_after, what):
        tin = sum(ins_before)
        tout = sum(outs_after)
        if not close(tin, tout, 1e-9, 1e-9 * max(1.0, float(np.abs(tin).max()))):
            self.fail('balance', f'{what}: outlets sum to {tout.tolist()} but the inlets sum to {tin.tolist()}',
                      {'event': ev})

    def do_set_flows(self, ev):
        s = self.S[ev['stream']]
        if isinstance(s, tmo.MultiStream):
            s.phase = 'l'
        s.imol[...] = np.array(ev['values'], float)
        s.T = ev['T']
        return 'ok'

    def do_dirty(self, ev):
        self.stats['fault:dirty_outlet'] += 1
        return self.do_set_flows(ev)

    @staticmethod
    def as_iterable(streams, form):
        if form == 'tuple':
            return tuple(streams)
        if form == 'generator':
            return (i for i in streams)
        if form == 'iterator':
            return iter(list(streams))
        return list(streams)

    def do_mix_and_split(self, ev):
        ins = self.as_iterable([self.S[n] for n in ev['ins']], ev.get('ins_form'))
        top, bottom = self.S[ev['top']], self.S[ev['bottom']]
        before = [self.mol(n) for n in ev['ins']]
        split = np.array(ev['split'], float) if isinstance(ev['split'], list) else ev['split']
        r = self.call(ev, lambda: sep.mix_and_split(ins, top, bottom, split))
        self.stats['mechanism_ops'] += 1
        if r[0] == 'exc':
            self.stats[f'exc:mix_and_split:{type(r[1]).__name__}'] += 1
            return 'exc'
        t, b = self.mol(ev['top']), self.mol(ev['bottom'])
        self.balance(ev, before, [t, b], 'mix_and_split')
        feed = sum(before)
        if not close(t, feed * split) or not close(b, feed - feed * split):
            self.fail('split', f'mix_and_split: top {t.tolist()} / bottom {b.tolist()} are not split*feed / feed-split*feed',
                      {'event': ev, 'feed': feed.tolist()})
        self.no_negatives(ev, [ev['top'], ev['bottom']], False)
        return 'ok'

    def _moisture_check(self, ev, ret, per, mc, before_total, r, F_ref=0.0):
        pk = self.pk
        if isinstance(self.S[ret], tmo.MultiStream) or isinstance(self.S[per], tmo.MultiStream):
            self.stats['moisture_on_multiphase_after_fallback'] += 1
            for n in (ret, per):
                if (self.mol(n) < 0).any() or (np.array(self.S[n].imol.data.to_array()) < 0).any():
                    self.S[n].imol.data.remove_negatives()
            return 'indeterminate'
        if r[0] == 'exc':
            # infeasibility was reported; the helper raises after having written both outlets, so the
            # streams are indeterminate now (C20 promises nothing here): harness repair, then carry on
            for n in (ret, per):
                if (self.mol(n) < 0).any():
                    self.stats['probe:negative_left_after_rejection'] += 1
                    self.S[n].imol.data.remove_negatives()
            if isinstance(r[1], InfeasibleRegion):
                self.stats['probe:moisture_infeasible_reported'] += 1
                return 'rejected'
            self.stats[f'exc:moisture:{type(r[1]).__name__}'] += 1
            return 'exc'
        a, b = self.mol(ret), self.mol(per)
        if not close(a + b, before_total, 1e-9, 1e-9 * max(1.0, float(np.abs(before_total).max()))):
            self.fail('balance', f'moisture adjustment: outlets sum to {(a + b).tolist()}, before {before_total.tolist()}',
                      {'event': ev})
        self.no_negatives(ev, [ret, per], False)
        w = pk.pos['Water']
        mass = a * pk.MW
        if ev.get('strict') in (None, True) or b[w] > 0:
            frac = mass[w] / mass.sum() if mass.sum() else 0.0
            # the helper obtains the dry mass as (total mass - water mass): when the retentate is almost pure
            # water that difference carries a relative rounding error of about eps * total / dry
            dry = float(mass.sum() - mass[w])
            tol = 1e-6 + (100 * 2.3e-16 * F_ref / dry if dry > 0 else 1.0)
            if abs(frac - mc) > tol:
                self.fail('moisture', f'retentate moisture fraction is {frac}, requested {mc}', {'event': ev})
        return 'ok'

    def do_moisture(self, ev):
        ret, per = self.S[ev['retentate']], self.S[ev['permeate']]
        before = self.mol(ev['retentate']) + self.mol(ev['permeate'])
        ID = 'Water' if ev['by_ID'] else None
        F_ref = float((self.mol(ev['retentate']) * self.pk.MW).sum())
        r = self.call(ev, lambda: sep.adjust_moisture_content(ret, per, ev['mc'], ID, ev['strict']))
        self.stats['mechanism_ops'] += 1
        return self._moisture_check(ev, ev['retentate'], ev['permeate'], ev['mc'], before, r, F_ref)

    def do_mix_split_moisture(self, ev):
        ins = self.as_iterable([self.S[n] for n in ev['ins']], ev.get('ins_form'))
        top, bottom = self.S[ev['top']], self.S[ev['bottom']]
        before = sum(self.mol(n) for n in ev['ins'])
        split = np.array(ev['split'], float) if isinstance(ev['split'], list) else ev['split']
        pk = self.pk
        dry = before * split
        dry[pk.pos['Water']] = 0
        if float((dry * pk.MW).sum()) <= 0:
            return 'skip:no-dry-mass'
        r = self.call(ev, lambda: sep.mix_and_split_with_moisture_content(ins, top, bottom, split, ev['mc'], None,
                                                                          ev['strict']))
        self.stats['mechanism_ops'] += 1
        return self._moisture_check(ev, ev['top'], ev['bottom'], ev['mc'], before, r,
                                    float((before * split * pk.MW).sum()))

    def do_partition_inplace(self, ev):
        """partition(ms, ms['g'], ms['l'], ...): the feed is a two-phase stream and its own phases receive the result"""
        pk = self.pk
        src = self.S[ev['feed']]
        f0 = self.mol(ev['feed'])
        ms = tmo.MultiStream(None, phases=('g', 'l'), T=src.T, P=src.P, thermo=pk.thermo)
        ms.imol['g'] = f0 * 0.3
        ms.imol['l'] = f0 - f0 * 0.3
        IDs = tuple(ev['IDs'])
        K = np.array(ev['K'], float)
        kw = {}
        if ev['top_chemicals']:
            kw['top_chemicals'] = tuple(ev['top_chemicals'])
        if ev['bottom_chemicals']:
            kw['bottom_chemicals'] = tuple(ev['bottom_chemicals'])
        r = self.call(ev, lambda: sep.partition(ms, ms['g'], ms['l'], IDs, K, ev['phi'], strict=ev['strict'], **kw))
        self.stats['mechanism_ops'] += 1
        self.stats['probe:partition_in_place'] += 1
        if r[0] == 'exc':
            self.stats[f'exc:partition_inplace:{type(r[1]).__name__}'] += 1
            return 'rejected' if isinstance(r[1], InfeasibleRegion) else 'exc'
        t = np.array(ms.imol['g'].to_array(), float)
        b = np.array(ms.imol['l'].to_array(), float)
        reported = self.warned_infeasible()
        if not reported:
            self.balance(ev, [f0], [t, b], 'partition (in place)')
            if (t < -1e-12).any() or (b < -1e-12).any():
                self.fail('negative-flow', 'in-place partition left a negative flow', {'event': ev})
        return ['ok', float(r[1]).hex()]

    def do_partition(self, ev):
        if ev.get('inplace'):
            return self.do_partition_inplace(ev)
        pk = self.pk
        feed, top, bottom = self.S[ev['feed']], self.S[ev['top']], self.S[ev['bottom']]
        f0 = self.mol(ev['feed'])
        IDs = tuple(ev['IDs'])
        K = np.array(ev['K'], float)
        kw = {}
        if ev['top_chemicals']:
            kw['top_chemicals'] = tuple(ev['top_chemicals'])
        if ev['bottom_chemicals']:
            kw['bottom_chemicals'] = tuple(ev['bottom_chemicals'])
        leftover = (self.mol(ev['top']).any() or self.mol(ev['bottom']).any())
        if leftover:
            self.stats['probe:partition_on_dirty_outlets'] += 1
        if ('C20-partition-dirty-outlets' in self.regions and leftover):
            self.stats['region:C20-partition-dirty-outlets'] += 1
            top.empty()
            bottom.empty()
        r = self.call(ev, lambda: sep.partition(feed, top, bottom, IDs, K, ev['phi'], strict=ev['strict'], **kw))
        self.stats['mechanism_ops'] += 1
        if r[0] == 'exc':
            if isinstance(r[1], InfeasibleRegion):
                self.stats['probe:partition_infeasible_reported'] += 1
                return 'rejected'
            self.stats[f'exc:partition:{type(r[1]).__name__}'] += 1
            return 'exc'
        phi = r[1]
        t, b = self.mol(ev['top']), self.mol(ev['bottom'])
        if not close(self.mol(ev['feed']), f0):
            self.fail('feed-changed', 'partition changed its feed')
        self.balance(ev, [f0], [t, b], 'partition')
        reported = self.warned_infeasible()
        self.no_negatives(ev, [ev['top'], ev['bottom']], reported)
        # achieved partition coefficients, up to the common factor introduced by forced chemicals
        idx = [pk.pos[c] for c in IDs]
        if 0 < phi < 1 and not reported and t.sum() > 0 and b.sum() > 0 and ev['phi'] is None:
            ti, bi, fi = t[idx], b[idx], f0[idx]
            ok = (ti > 1e-12) & (bi > 1e-12)
            if ok.sum() >= 2:
                y = ti / t.sum()
                x = bi / b.sum()
                ratio = (y[ok] / x[ok]) / K[ok]
                # top = feed - bottom is a difference: a component that ends almost entirely in one outlet carries
                # a relative rounding error of about eps * feed / (small outlet flow)
                tol = 1e-9 + 1e-13 * fi[ok] / np.minimum(ti[ok], bi[ok])
                keep = tol < 1e-7
                if keep.sum() >= 2:
                    r, tl = ratio[keep], tol[keep]
                    ref = int(np.argmin(tl))
                    dev = np.abs(r / r[ref] - 1)
                    if (dev > 1e-7 + tl + tl[ref]).any():
                        self.fail('partition-K', f'achieved y/x over K is {ratio.tolist()} (not a common factor)',
                                  {'event': ev, 'top': t.tolist(), 'bottom': b.tolist()})
        # a phase fraction at a bound sends ALL partitioned material to one outlet; when both outlets are
        # non-empty anyway (forced chemicals) the given K are then not reproduced.  That is only right when the
        # Rachford-Rice balance with the forced amounts has no interior root (independent bisection here)
        if phi in (0., 1.) and not reported and t.sum() > 0 and b.sum() > 0 and f0[idx].sum() > 0:
            root = self.rr_root(f0, idx, K, ev)
            if root is not None and 1e-6 < root < 1 - 1e-6:
                self.fail('partition-K', f'partition returned phi={phi} (all partitioned material in one outlet) although '
                          f'the balance with the forced chemicals has the interior solution phi={root:.6g}: the given '
                          f'K are not reproduced between two non-empty outlets',
                          {'event': ev, 'top': t.tolist(), 'bottom': b.tolist()})
        return ['ok', float(phi).hex()]

    def rr_root(self, f0, idx, K, ev):
        pk = self.pk
        mol = f0[idx]
        Fa = float(sum(f0[pk.pos[c]] for c in ev['top_chemicals']))
        Fb = float(sum(f0[pk.pos[c]] for c in ev['bottom_chemicals']))
        F = float(mol.sum()) + Fa + Fb
        if not F > 0:
            return None
        z, za, zb = mol / F, Fa / F, Fb / F

        def g(phi):
            v = float((z * (1. - K) / (1. + phi * (K - 1.))).sum())
            if za:
                v -= za / phi
            if zb:
                v += zb / (1. - phi)
            return v
        lo = 1e-12 if za else 0.
        hi = 1. - 1e-12 if zb else 1.
        glo, ghi = g(lo), g(hi)
        if not (glo < 0. < ghi):
            return None
        for _ in range(200):
            mid = 0.5 * (lo + hi)
            if g(mid) < 0.:
                lo = mid
            else:
                hi = mid
        return 0.5 * (lo + hi)

    def do_phase_split(self, ev):
        feed = self.S[ev['feed']]
        pk = self.pk
        f0 = self.mol(ev['feed'])
        ms = tmo.MultiStream(None, phases=('g', 'l'), T=feed.T, P=feed.P, thermo=pk.thermo)
        ms.imol['g'] = f0 * ev['frac']
        ms.imol['l'] = f0 - f0 * ev['frac']
        outs = [self.S[n] for n in ev['outlets']]
        r = self.call(ev, lambda: sep.phase_split(ms, outs))
        self.stats['mechanism_ops'] += 1
        if r[0] == 'exc':
            self.stats[f'exc:phase_split:{type(r[1]).__name__}'] += 1
            return 'exc'
        g, l = self.mol(ev['outlets'][0]), self.mol(ev['outlets'][1])
        if not close(g, f0 * ev['frac']) or not close(l, f0 - f0 * ev['frac']):
            self.fail('phase-routing', 'phase_split did not send each phase to its own outlet', {'event': ev})
        for o, ph in zip(outs, ('g', 'l')):
            if isinstance(o, tmo.MultiStream):
                rows = {p: np.array(o.imol.data.rows[i].to_array(), float) for i, p in enumerate(o.phases)}
                if any(row.any() for p, row in rows.items() if p != ph):
                    self.fail('phase-routing', f'phase_split: multi-phase outlet holds {ph!r} material under another label',
                              {'event': ev})
            elif o.phase != ph:
                self.fail('phase-routing', f'phase_split: outlet for phase {ph!r} is labelled {o.phase!r}', {'event': ev})
            if o.T != feed.T or o.P != feed.P:
                self.fail('phase-routing', 'phase_split outlets have the wrong T / P', {'event': ev})
        return 'ok'

    def do_chemical_splits(self, ev):
        a, b = self.S[ev['a']], self.S[ev['b']]
        ma, mb = self.mol(ev['a']), self.mol(ev['b'])
        if ev['use_mixed']:
            mixed = tmo.Stream(None, flow=ma + mb, thermo=self.pk.thermo)
            r = self.call(ev, lambda: sep.chemical_splits(a, mixed=mixed))
        else:
            r = self.call(ev, lambda: sep.chemical_splits(a, b))
        self.stats['mechanism_ops'] += 1
        if r[0] == 'exc':
            self.stats[f'exc:chemical_splits:{type(r[1]).__name__}'] += 1
            return 'exc'
        sp = np.array(r[1].data.to_array(), float)
        if not close(sp * (ma + mb), ma):
            self.fail('splits', 'chemical_splits x mixed flow does not give back the first stream', {'event': ev})
        if not close(self.mol(ev['a']), ma) or not close(self.mol(ev['b']), mb):
            self.fail('splits-sideeffect', 'chemical_splits changed its arguments')
        return 'ok'

    def do_material_balance(self, ev):
        pk = self.pk
        var = [self.S[n] for n in ev['variable']]
        cin = [self.S[n] for n in ev['constant_in']]
        cout = [self.S[n] for n in ev['constant_out']]
        comp0 = [self.mol(n) for n in ev['variable']]
        r = self.call(ev, lambda: sep.material_balance(tuple(ev['chemicals']), var, cin, cout))
        self.stats['mechanism_ops'] += 1
        if r[0] == 'exc':
            self.stats[f'exc:material_balance:{type(r[1]).__name__}'] += 1
            return 'exc'
        idx = [pk.pos[c] for c in ev['chemicals']]
        tin = sum(self.mol(n) for n in ev['variable'] + ev['constant_in'])
        tout = sum(self.mol(n) for n in ev['constant_out'])
        res = (tin - tout)[idx]
        if not close(res, np.zeros(len(idx)), 0, 1e-7 * max(1.0, float(np.abs(tout).max()))):
            self.fail('material-balance', f'inlets - outlets for {ev["chemicals"]} is {res.tolist()} after the balance',
                      {'event': ev})
        for n, c0 in zip(ev['variable'], comp0):
            c1 = self.mol(n)
            if c0.sum() > 0 and c1.sum() > 0 and not close(c1 / c1.sum(), c0 / c0.sum(), 1e-9, 1e-12):
                self.fail('material-balance-composition', f'variable inlet {n} changed composition', {'event': ev})
        return 'ok'

    def persistent_ms(self, key, phases):
        if key not in self.ms:
            self.ms[key] = tmo.MultiStream(None, phases=phases, thermo=self.pk.thermo)
        return self.ms[key]

    def do_vle(self, ev):
        feed, vap, liq = self.S[ev['feed']], self.S[ev['vap']], self.S[ev['liq']]
        f0 = self.mol(ev['feed'])
        kw = dict(ev['spec'])
        if ev['persistent']:
            kw['multi_stream'] = self.persistent_ms('vle', ('g', 'l'))
            self.stats['probe:warm_multi_stream'] += 1
        r = self.call(ev, lambda: sep.vle(feed, vap, liq, **kw))
        self.stats['mechanism_ops'] += 1
        if r[0] == 'exc':
            self.stats[f'exc:vle:{type(r[1]).__name__}'] += 1
            return 'exc'
        v, l = self.mol(ev['vap']), self.mol(ev['liq'])
        self.balance(ev, [f0], [v, l], 'vle wrapper')
        self.no_negatives(ev, [ev['vap'], ev['liq']], False)
        if vap.phase != 'g' or liq.phase != 'l':
            self.fail('phase-routing', 'vle wrapper: outlets are not labelled g / l')
        if not close(self.mol(ev['feed']), f0):
            self.fail('feed-changed', 'vle wrapper changed its feed')
        return 'ok'

    def do_lle(self, ev):
        feed, top, bottom = self.S[ev['feed']], self.S[ev['top']], self.S[ev['bottom']]
        f0 = self.mol(ev['feed'])
        kw = {'efficiency': ev['efficiency']}
        if ev['persistent']:
            kw['multi_stream'] = self.persistent_ms('lle', ('L', 'l'))
            self.stats['probe:warm_multi_stream'] += 1
        r = self.call(ev, lambda: sep.lle(feed, top, bottom, **kw))
        self.stats['mechanism_ops'] += 1
        if r[0] == 'exc':
            self.stats[f'exc:lle:{type(r[1]).__name__}'] += 1
            return 'exc'
        t, b = self.mol(ev['top']), self.mol(ev['bottom'])
        self.balance(ev, [f0], [t, b], 'lle wrapper')
        self.no_negatives(ev, [ev['top'], ev['bottom']], False)
        if not close(self.mol(ev['feed']), f0):
            self.fail('feed-changed', 'lle wrapper changed its feed')
        return 'ok'

    # ------------------------------------------------------------ measures
    def abstract_state(self):
        out = []
        for n in sorted(self.S):
            s = self.S[n]
            out.append((type(s).__name__, tuple(s.phases), tuple(bool(x) for x in self.mol(n))))
        out.append(tuple(sorted(self.ms)))
        return out

    def shared_touch(self, ev):
        return ev.get('op')
