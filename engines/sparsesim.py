"""sparsesim: sparse vectors / logical vectors / sparse 2-d arrays against NumPy (C09).

Real code: thermosteam.base.sparse (SparseVector, SparseLogicalVector, SparseArray and the
module functions).  Nothing is stubbed.  Reference model: a heap of 1-d NumPy *cells*
(one per stored row); a vector object owns one cell, an array object an ordered list
of cells.  Objects that alias (rows obtained by sa[i], sa[[i, j]], from_rows, iteration,
sparse(obj), ...) share cells, so a write through one name shows in the dense image of
every other name by construction of the model - the alias map of DESIGN 5/C09.

Step oracles (after EVERY event):
 (1) to_array() of every live object == its mirror (values, shape, bool/float kind);
 (2) the returned result's dense image == NumPy's result on the mirrors
     (shapes modulo leading length-1 axes; exact for element-wise operations, a
     rounding-error bound for multi-term sums whose order NumPy does not fix);
 (3) only the cells of the in-place target changed (follows from (1) on all objects);
 (4) representation invariant of every live object and of every returned sparse object;
 (5) events that must be rejected (shape mismatch, write to a read-only object) raise
     and leave every mirror unchanged.
An exception on an operation believed supported is judged differentially: the same event
on a FRESH universe built from the mirrors; same exception class -> 'unsupported:<op>'
(and the state must be unchanged), otherwise a violation.
"""
import math
import operator
import warnings

import numpy as np

from sim import env
from sim.kernel import BaseWorld, Violation

env.import_thermosteam()
from thermosteam.base import sparse as spm  # noqa: E402
from thermosteam.base.sparse import (  # noqa: E402
    SparseVector, SparseLogicalVector, SparseArray, sparse, sparse_vector, sparse_array,
    nonzero_items,
)

NAME = 'sparsesim'
SPARSE_CLASSES = (SparseVector, SparseLogicalVector, SparseArray)
EPS = float(np.finfo(float).eps)

BINOPS = {
    'add': operator.add, 'sub': operator.sub, 'mul': operator.mul, 'truediv': operator.truediv,
    'eq': operator.eq, 'ne': operator.ne, 'lt': operator.lt, 'le': operator.le,
    'gt': operator.gt, 'ge': operator.ge,
    'and': operator.and_, 'or': operator.or_, 'xor': operator.xor,
}
IOPS = {
    'iadd': operator.iadd, 'isub': operator.isub, 'imul': operator.imul,
    'itruediv': operator.itruediv, 'iand': operator.iand, 'ior': operator.ior,
    'ixor': operator.ixor,
}
ARITH = ('add', 'sub', 'mul', 'truediv')
COMPARE = ('eq', 'ne', 'lt', 'le', 'gt', 'ge')
LOGICAL = ('and', 'or', 'xor')
REDUCTIONS = ('any', 'all', 'sum', 'mean', 'max', 'min')

OPS = ['new', 'conv', 'rows', 'row', 'get', 'set', 'binop', 'iop', 'reduce', 'clear',
       'setflags', 'remove_negatives', 'mix_from', 'copy_like', 'dense', 'from_flat',
       'query', 'sum_of', 'sparse_equal', 'shares', 'drop']
OP_WEIGHT = {'new': 2, 'conv': 3, 'rows': 2, 'row': 4, 'get': 5, 'set': 8, 'binop': 9, 'iop': 9,
             'reduce': 4, 'clear': 1, 'setflags': 1, 'remove_negatives': 1, 'mix_from': 3,
             'copy_like': 2, 'dense': 3, 'from_flat': 1, 'query': 3, 'sum_of': 1,
             'sparse_equal': 1, 'shares': 1, 'drop': 1}
WRITE_OPS = ('set', 'iop', 'clear', 'remove_negatives', 'mix_from', 'copy_like', 'from_flat')
OPERAND_KINDS = ['scalar', 'bscalar', 'list1', 'nd1', 'nd0', 'list2', 'nd2', 'deep', 'ref', 'self']
MAX_OBJS = 8

# ------------------------------------------------------------------ known-finding regions
# (filled in further below: REGIONS maps id -> predicate(world, ev, plan))


def make_cfg(rng, prop, tier):
    lo, hi = tier.get('steps', (10, 30))
    a = rng.choice([1.5, 2.0, 0.5, 2.5])
    vals = [0, a, -a] + [v for v in (0.25, 3, 1e-300, 1e300) if rng.random() < 0.5]
    n = rng.choice([1, 2, 2, 3, 3, 4, 5, 6])
    m = rng.choice([1, 2, 2, 3, 3])
    kinds = [k for k in ('sv', 'lv', 'sa', 'sab') if rng.random() < 0.7]
    if not kinds:
        kinds = [rng.choice(['sv', 'lv', 'sa', 'sab'])]
    ops = [o for o in OPS if rng.random() < 0.7]
    for must in ('set', 'iop'):
        if must not in ops and rng.random() < 0.7:
            ops.append(must)
    if not ops:
        ops = ['binop']
    okinds = [k for k in OPERAND_KINDS if rng.random() < 0.7]
    if not okinds:
        okinds = ['scalar']
    pz = rng.choice([0.2, 0.5, 0.8])
    universe = []
    for _ in range(rng.randint(3, 6)):
        kind = rng.choice(kinds)
        nn = 1 if rng.random() < 0.12 else n
        mm = 1 if rng.random() < 0.2 else m
        universe.append({'kind': kind, 'data': _rand_data(rng, kind, mm, nn, vals, pz)})
    return {
        'steps': rng.randint(lo, hi), 'regions': list(tier.get('regions', [])),
        'a': a, 'vals': vals, 'n': n, 'm': m, 'kinds': kinds, 'ops': ops, 'okinds': okinds,
        'pz': pz, 'universe': universe, 'p_f7': rng.choice([0.0, 0.05, 0.15]),
        'p_self': rng.choice([0.05, 0.2, 0.4]),
    }


def _rand_val(rng, vals, pz, boolean=False, nonzero=False):
    if boolean:
        return True if nonzero else (rng.random() >= pz)
    if not nonzero and rng.random() < pz:
        return 0
    nz = [v for v in vals if v != 0]
    return rng.choice(nz)


def _rand_data(rng, kind, m, n, vals, pz):
    boolean = kind in ('lv', 'sab')
    if kind in ('sv', 'lv'):
        return [_rand_val(rng, vals, pz, boolean) for _ in range(n)]
    return [[_rand_val(rng, vals, pz, boolean) for _ in range(n)] for _ in range(m)]


def World(prop, cfg):
    return SparseWorld(prop, cfg)


class Obj:
    __slots__ = ('kind', 'cells', 'real')

    def __init__(self, kind, cells, real):
        self.kind = kind      # 'v' (1-d) or 'a' (2-d)
        self.cells = cells    # list of cell ids
        self.real = real


class Plan:
    """What one event is expected to do (computed from the mirrors only)."""
    __slots__ = ('run', 'expect', 'why', 'ref', 'cmp', 'scale', 'writes', 'target', 'bind',
                 'nonfinite', 'dtype_strict', 'mech', 'check', 'aliases_ok')

    def __init__(self, run):
        self.run = run            # callable(universe: name -> real object) -> result
        self.expect = 'ok'        # 'ok' | 'reject'
        self.why = None           # reason of a rejection ('readonly-write' | 'shape-mismatch')
        self.ref = None           # NumPy reference of the returned value (None: not compared)
        self.cmp = 'exact'        # 'exact' | 'tol' | 'none'
        self.scale = None         # magnitude of the summed terms for cmp == 'tol'
        self.writes = None        # (obj, new dense image) model post-state of the target
        self.target = None
        self.bind = None          # callable(result) registering a returned object
        self.nonfinite = False    # convention (iv): compare nothing, re-sync the target
        self.dtype_strict = False
        self.mech = False
        self.check = None         # extra callable(result) -> error text or None


class _NoRef:
    pass


def _is_sparse(x):
    return x.__class__ in SPARSE_CLASSES


def _dense(x):
    if _is_sparse(x):
        return x.to_array()
    return np.asarray(x)


def _strip(a):
    a = np.asarray(a)
    while a.ndim and a.shape[0] == 1:
        a = a[0]
    return a


def _finite(a):
    a = np.asarray(a)
    if a.dtype.kind in 'fc':
        return bool(np.isfinite(a).all())
    return True


def _jsonable(a):
    a = np.asarray(a)
    if a.dtype.kind == 'f':
        return [repr(float(x)) for x in a.ravel()]
    return [repr(x) for x in a.ravel().tolist()]


class SparseWorld(BaseWorld):

    def __init__(self, prop, cfg):
        super().__init__(prop, cfg)
        warnings.filterwarnings('ignore')
        self.regions = set(cfg.get('regions', []))
        self.cells = {}     # cell id -> 1-d ndarray (float64 or bool): the mirror of one stored row
        self.ro = {}        # cell id -> read-only flag
        self.ncell = 0
        self.objs = {}      # name -> Obj
        for i, spec in enumerate(cfg['universe']):
            boolean = spec['kind'] in ('lv', 'sab')
            real = sparse(spec['data'])
            self._bind_new(f'o{i}', real, np.array(spec['data'], dtype=bool if boolean else float))
        self.check_all({'op': 'init'}, 'state')

    # ------------------------------------------------------------ model helpers
    def _new_cell(self, arr):
        self.ncell += 1
        cid = self.ncell
        self.cells[cid] = np.array(arr)   # own copy
        self.ro[cid] = False
        return cid

    def img(self, o):
        if o.kind == 'v':
            return self.cells[o.cells[0]].copy()
        return np.array([self.cells[c] for c in o.cells])

    def is_bool(self, o):
        return self.cells[o.cells[0]].dtype == bool

    def shape(self, o):
        n = len(self.cells[o.cells[0]])
        return (n,) if o.kind == 'v' else (len(o.cells), n)

    def ro_state(self, o):
        flags = {self.ro[c] for c in o.cells}
        if len(flags) == 2:
            return 'mixed'
        return 'ro' if True in flags else 'rw'

    def write(self, o, new):
        new = np.asarray(new)
        if o.kind == 'v':
            self.cells[o.cells[0]][...] = new.reshape(self.cells[o.cells[0]].shape)
        else:
            new = new.reshape(len(o.cells), -1)
            for k, c in enumerate(o.cells):
                self.cells[c][...] = new[k]

    def resync(self, o):
        """Take the target's mirror from the real object (non-finite / rounding-order steps)."""
        arr = o.real.to_array()
        if arr.shape != self.shape(o):
            self.fail('state', f'shape of the target became {arr.shape}, model {self.shape(o)}')
        self.write(o, arr)

    def _bind_new(self, dst, real, image):
        kind = 'a' if real.__class__ is SparseArray else 'v'
        image = np.asarray(image)
        boolean = self._real_is_bool(real)
        image = image.astype(bool if boolean else float)
        if kind == 'v':
            image = image.reshape(-1)
            cells = [self._new_cell(image)]
        else:
            m = len(real.rows)
            image = image.reshape(m, -1) if m else image.reshape(0, 0)
            cells = [self._new_cell(image[k]) for k in range(m)]
        self.objs[dst] = Obj(kind, cells, real)

    def _bind_alias(self, dst, real, cells):
        kind = 'a' if real.__class__ is SparseArray else 'v'
        self.objs[dst] = Obj(kind, list(cells), real)

    @staticmethod
    def _real_is_bool(real):
        if real.__class__ is SparseArray:
            return bool(real.rows) and real.rows[0].__class__ is SparseLogicalVector
        return real.__class__ is SparseLogicalVector

    def _dst_ok(self, dst):
        if not isinstance(dst, str):
            return False
        return dst in self.objs or len(self.objs) < MAX_OBJS

    def universe(self):
        return {k: o.real for k, o in self.objs.items()}

    def fresh_universe(self):
        """The same dense content and alias structure in newly built objects."""
        cellobj = {}
        for cid in sorted(self.cells):
            arr = self.cells[cid]
            if arr.dtype == bool:
                v = SparseLogicalVector.from_set({i for i, x in enumerate(arr) if x}, len(arr))
            else:
                v = SparseVector.from_dict({i: float(x) for i, x in enumerate(arr) if x}, len(arr))
                v.read_only = self.ro[cid]
            cellobj[cid] = v
        built = []   # (real, fresh) pairs; identity lookup without hashing ids
        uni = {}
        for name in sorted(self.objs):
            o = self.objs[name]
            fresh = None
            for real, f in built:
                if real is o.real:
                    fresh = f
                    break
            if fresh is None:
                if o.kind == 'v':
                    fresh = cellobj[o.cells[0]]
                else:
                    fresh = SparseArray.from_rows([cellobj[c] for c in o.cells])
                built.append((o.real, fresh))
            uni[name] = fresh
        return uni

    def _gc(self):
        live = set()
        for o in self.objs.values():
            live.update(o.cells)
        for cid in [c for c in self.cells if c not in live]:
            del self.cells[cid]
            del self.ro[cid]

    # ------------------------------------------------------------ operands and indices
    def _operand_ok(self, spec):
        if not isinstance(spec, dict):
            return False
        k = spec.get('k')
        if k == 'ref':
            return spec.get('name') in self.objs
        return k in ('py', 'nd') and 'v' in spec

    def _operand_np(self, spec):
        k = spec['k']
        if k == 'ref':
            return self.img(self.objs[spec['name']])
        if k == 'nd':
            return np.array(spec['v'], dtype={'f': float, 'b': bool, 'i': int}[spec.get('dt', 'f')])
        v = spec['v']
        if isinstance(v, list):
            return np.asarray(v)
        return v

    @staticmethod
    def _operand_real(spec, uni):
        k = spec['k']
        if k == 'ref':
            return uni[spec['name']]
        if k == 'nd':
            return np.array(spec['v'], dtype={'f': float, 'b': bool, 'i': int}[spec.get('dt', 'f')])
        v = spec['v']
        if isinstance(v, list):
            return _deep_list(v)
        return v

    def _operand_cells(self, spec):
        if spec.get('k') == 'ref' and spec.get('name') in self.objs:
            return self.objs[spec['name']].cells
        return []

    def _index(self, spec, shape, np_side, uni=None):
        """Index object from its JSON form; None when it does not fit `shape`."""
        if not isinstance(spec, dict):
            return None
        t = spec.get('t')
        if t == 'tuple':
            elems = spec.get('e', [])
            if len(elems) != len(shape):
                return None
            out = []
            for dim, e in enumerate(elems):
                if e.get('t') in ('tuple', 'mask2', 'smask'):
                    return None
                x = self._index(e, (shape[dim],), np_side, uni)
                if x is None:
                    return None
                out.append(x)
            if len(out) == 2:
                adv = [e.get('t') in ('list', 'nd', 'mask') for e in elems]
                if all(adv):
                    if 'mask' in (elems[0]['t'], elems[1]['t']):
                        return None
                    if len(elems[0]['v']) != len(elems[1]['v']):
                        return None
            return tuple(out)
        n = shape[0]
        if t == 'int':
            i = spec.get('i')
            if not isinstance(i, int) or isinstance(i, bool) or not 0 <= i < n:
                return None
            return i
        if t == 'slice':
            a, b, s = spec.get('a'), spec.get('b'), spec.get('s')
            for x in (a, b):
                if x is not None and not (isinstance(x, int) and 0 <= x <= n):
                    return None
            if s is not None and not (isinstance(s, int) and s >= 1):
                return None
            return slice(a, b, s)
        if t in ('list', 'nd'):
            v = spec.get('v')
            if not v or not all(isinstance(i, int) and not isinstance(i, bool) and 0 <= i < n for i in v):
                return None
            if t == 'nd' or np_side:
                return np.array(v, dtype=int)
            return list(v)
        if t == 'mask':
            v = spec.get('v')
            if not isinstance(v, list) or len(v) != n or not all(isinstance(i, bool) for i in v):
                return None
            if spec.get('nd') or np_side:
                return np.array(v, dtype=bool)
            return list(v)
        if t == 'mask2':
            v = spec.get('v')
            try:
                arr = np.array(v, dtype=bool)
            except Exception:
                return None
            if arr.shape != tuple(shape) or len(shape) != 2:
                return None
            return arr
        if t == 'smask':
            o = self.objs.get(spec.get('name'))
            if o is None or not self.is_bool(o) or self.shape(o) != tuple(shape):
                return None
            if np_side:
                return self.img(o)
            return uni[spec['name']]
        return None

    # ------------------------------------------------------------ oracles
    def check_repr(self, real, label, ev):
        cls = real.__class__
        if cls is SparseArray:
            rows = real.rows
            sizes = []
            for k, row in enumerate(rows):
                if row.__class__ not in (SparseVector, SparseLogicalVector):
                    self.fail('repr:row-type', f'{label}: row {k} is a {type(row).__name__}', {'event': ev})
                self.check_repr(row, f'{label}.rows[{k}]', ev)
                sizes.append(row.size)
            if len(set(sizes)) > 1:
                self.fail('repr:row-sizes', f'{label}: rows have different sizes {sizes}', {'event': ev})
            if len({row.__class__ for row in rows}) > 1:
                self.fail('repr:row-types', f'{label}: rows mix float and logical vectors', {'event': ev})
            return
        size = real.size
        if not isinstance(size, (int, np.integer)) or isinstance(size, bool) or size < 0:
            self.fail('repr:size', f'{label}: size is {size!r}', {'event': ev})
        if cls is SparseVector:
            dct = real.dct
            if dct.__class__ is not dict:
                self.fail('repr:container', f'{label}: dct is a {type(dct).__name__}', {'event': ev})
            for k, v in dct.items():
                if isinstance(k, bool) or not isinstance(k, (int, np.integer)) or not 0 <= k < size:
                    self.fail('repr:key-out-of-range', f'{label}: stored key {k!r} outside range({size})',
                              {'event': ev, 'stored': {repr(a): repr(b) for a, b in dct.items()}})
                if v == 0:
                    self.fail('repr:stored-zero', f'{label}: zero stored at index {k}',
                              {'event': ev, 'stored': {repr(a): repr(b) for a, b in dct.items()}})
        elif cls is SparseLogicalVector:
            st = real.set
            if st.__class__ is not set:
                self.fail('repr:container', f'{label}: set is a {type(st).__name__}', {'event': ev})
            for k in st:
                if isinstance(k, bool) or not isinstance(k, (int, np.integer)) or not 0 <= k < size:
                    self.fail('repr:key-out-of-range', f'{label}: stored key {k!r} outside range({size})',
                              {'event': ev, 'stored': sorted(map(repr, st))})

    def check_all(self, ev, oracle):
        for name in sorted(self.objs):
            o = self.objs[name]
            self.check_repr(o.real, name, ev)
            try:
                got = o.real.to_array()
            except Exception as e:
                self.fail(oracle, f'{name}.to_array() raised {type(e).__name__}: {e}', {'event': ev})
            want = self.img(o)
            bad = None
            if got.shape != want.shape:
                bad = f'shape {got.shape}, expected {want.shape}'
            elif (got.dtype == bool) != (want.dtype == bool):
                bad = f'dtype {got.dtype}, expected {want.dtype}'
            elif not _same(got, want):
                bad = 'values differ'
            if bad:
                self.fail(oracle, f'{name} ({self._describe(o)}): dense image differs from its mirror: {bad}',
                          {'event': ev, 'object': name, 'got': _jsonable(got), 'mirror': _jsonable(want),
                           'universe': self.describe()})

    def _describe(self, o):
        return f"{'bool' if self.is_bool(o) else 'float'} {'x'.join(map(str, self.shape(o)))} cells {o.cells}"

    def describe(self):
        return {k: {'kind': o.kind, 'cells': o.cells, 'ro': [self.ro[c] for c in o.cells],
                    'mirror': _jsonable(self.img(o))} for k, o in sorted(self.objs.items())}

    def compare_result(self, plan, res, ev):
        if plan.check is not None:
            msg = plan.check(res)
            if msg:
                self.fail('result', f"{ev['op']}: {msg}", {'event': ev, 'universe': self.describe()})
        if plan.ref is None or plan.cmp == 'none':
            return
        try:
            got = _dense(res)
        except Exception as e:
            self.fail('result', f"{ev['op']}: dense image of the result raised {type(e).__name__}: {e}",
                      {'event': ev})
        ref = np.asarray(plan.ref)
        g, r = _strip(got), _strip(ref)
        detail = {'event': ev, 'got': _jsonable(got), 'numpy': _jsonable(ref),
                  'got_shape': list(got.shape), 'numpy_shape': list(ref.shape), 'universe': self.describe()}
        if g.dtype == object:
            self.fail('result', f"{ev['op']}: result has object dtype", detail)
        if g.shape != r.shape:
            self.fail('result-shape', f"{ev['op']}: result shape {got.shape}, NumPy {ref.shape}", detail)
        if plan.dtype_strict and r.dtype == bool and g.dtype != bool:
            self.fail('result-dtype', f"{ev['op']}: result dtype {got.dtype}, NumPy bool", detail)
        if plan.cmp == 'exact':
            if not _same(g, r):
                self.fail('result', f"{ev['op']}: result differs from NumPy", detail)
        else:
            scale = _strip(np.asarray(plan.scale, dtype=float))
            tol = 16 * EPS * scale + 5e-324
            with np.errstate(all='ignore'):
                diff = np.abs(g.astype(float) - r.astype(float))
            if not bool(np.all(diff <= tol)):
                self.fail('result', f"{ev['op']}: result differs from NumPy beyond summation-order rounding",
                          detail)

    # ------------------------------------------------------------ execution
    def apply(self, ev):
        op = ev.get('op')
        if op == 'noop':
            return 'noop'
        handler = getattr(self, '_p_' + str(op), None)
        if handler is None:
            return 'skip:pre'
        with np.errstate(all='ignore'):
            plan = handler(ev)
        if plan is None:
            return 'skip:pre'
        self.stats[f'op:{op}'] += 1
        sub = ev.get('opr') or ev.get('how') or ev.get('fn')
        if sub:
            self.stats[f'sub:{op}.{sub}'] += 1
        if plan.mech:
            self.stats['mechanism_ops'] += 1
        raised = None
        res = None
        try:
            with warnings.catch_warnings():
                warnings.simplefilter('ignore')
                res = plan.run(self.universe())
        except Violation:
            raise
        except Exception as e:
            raised = e
        if plan.expect == 'reject':
            if raised is None:
                self.fail('missing-rejection:' + plan.why,
                          f"{op}: {plan.why} was not rejected", {'event': ev, 'universe': self.describe()})
            self.stats['fault:' + plan.why] += 1
            self.check_all(ev, 'rejected-op-changed-state')
            return f'rejected:{type(raised).__name__}'
        if raised is not None:
            again = None
            try:
                with warnings.catch_warnings():
                    warnings.simplefilter('ignore')
                    plan.run(self.fresh_universe())
            except Exception as e2:
                again = e2
            if again is None or type(again) is not type(raised):
                self.fail('history-dependent-exception',
                          f"{op}: raised {type(raised).__name__}: {raised}; the same operation on fresh objects "
                          f"with the same dense content " +
                          ('succeeds' if again is None else f'raises {type(again).__name__}'),
                          {'event': ev, 'universe': self.describe()})
            self.stats[f'unsupported:{op}:{sub}:{type(raised).__name__}'] += 1
            self.check_all(ev, 'exception-changed-state')
            return f'unsupported:{type(raised).__name__}'
        if _is_sparse(res):
            self.check_repr(res, 'result', ev)
        if plan.nonfinite:
            self.stats['nonfinite_steps'] += 1
            if plan.writes is not None:
                self.resync(plan.writes[0])
            if plan.bind is not None:
                plan.bind(res, True)
            obs = 'nonfinite'
        else:
            self.compare_result(plan, res, ev)
            if plan.writes is not None:
                if plan.cmp == 'tol':
                    want = np.asarray(plan.writes[1], dtype=float)
                    got = plan.writes[0].real.to_array()
                    tol = 16 * EPS * np.asarray(plan.scale, dtype=float) + 5e-324
                    if got.shape != want.shape or not bool(np.all(np.abs(got - want) <= tol)):
                        self.fail('state', f"{op}: target differs from NumPy beyond summation-order rounding",
                                  {'event': ev, 'got': _jsonable(got), 'numpy': _jsonable(want),
                                   'universe': self.describe()})
                    self.resync(plan.writes[0])
                else:
                    self.write(*plan.writes)
            if plan.bind is not None:
                plan.bind(res, False)
            obs = _obs(res)
        self._gc()
        self.check_all(ev, 'state')
        return obs

    def finish(self):
        self.check_all({'op': 'finish'}, 'state')

    def abstract_state(self):
        out = []
        for name in sorted(self.objs):
            o = self.objs[name]
            im = self.img(o)
            out.append((o.kind, 'b' if im.dtype == bool else 'f', im.shape,
                        tuple((im != 0).ravel().tolist()), tuple(self.ro[c] for c in o.cells),
                        tuple(o.cells)))
        return out

    def shared_touch(self, ev):
        other = ev.get('other') or ev.get('value') or {}
        return (ev.get('op'), ev.get('target') or ev.get('src'), ev.get('opr'),
                other.get('name') if isinstance(other, dict) else None)
