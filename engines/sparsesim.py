"""sparsesim: sparse vectors / logical vectors / sparse 2-d arrays against NumPy (C09).

Real code: thermosteam.base.sparse (SparseVector, SparseLogicalVector, SparseArray and the
module functions).  Nothing is stubbed.  Reference model: a heap of 1-d NumPy *cells*
(one per stored row); a vector object owns one cell, an array object an ordered list
of cells.  Objects that alias (rows obtained by sa[i], sa[[i, j]], from_rows, iteration,
sparse(obj), ...) share cells, so a write through one name shows in the dense image of
every other name by construction of the model - the alias map of DESIGN 5/C09.

Step oracles (after EVERY event):
 (1) to_array() of every live object == its mirror (values, shape, bool/float kind);
 (2) the returned result's dense image == NumPy's result on the mirrors
     (shapes modulo leading length-1 axes; exact for element-wise operations, a
     rounding-error bound for multi-term sums whose order NumPy does not fix);
 (3) only the cells of the in-place target changed (follows from (1) on all objects);
 (4) representation invariant of every live object and of every returned sparse object;
 (5) events that must be rejected (shape mismatch, write to a read-only object) raise
     and leave every mirror unchanged.
An exception on an operation believed supported is judged differentially: the same event
on a FRESH universe built from the mirrors; same exception class -> 'unsupported:<op>'
(and the state must be unchanged), otherwise a violation.
"""
import operator
import warnings

import numpy as np

from sim import env
from sim.kernel import BaseWorld, Violation

env.import_thermosteam()
from thermosteam.base import sparse as spm  # noqa: E402
from thermosteam.base.sparse import (  # noqa: E402
    SparseVector, SparseLogicalVector, SparseArray, sparse, sparse_vector, sparse_array,
    nonzero_items,
)

NAME = 'sparsesim'
SPARSE_CLASSES = (SparseVector, SparseLogicalVector, SparseArray)
EPS = float(np.finfo(float).eps)

BINOPS = {
    'add': operator.add, 'sub': operator.sub, 'mul': operator.mul, 'truediv': operator.truediv,
    'eq': operator.eq, 'ne': operator.ne, 'lt': operator.lt, 'le': operator.le,
    'gt': operator.gt, 'ge': operator.ge,
    'and': operator.and_, 'or': operator.or_, 'xor': operator.xor,
}
IOPS = {
    'iadd': operator.iadd, 'isub': operator.isub, 'imul': operator.imul,
    'itruediv': operator.itruediv, 'iand': operator.iand, 'ior': operator.ior,
    'ixor': operator.ixor,
}
ARITH = ('add', 'sub', 'mul', 'truediv')
COMPARE = ('eq', 'ne', 'lt', 'le', 'gt', 'ge')
LOGICAL = ('and', 'or', 'xor')
REDUCTIONS = ('any', 'all', 'sum', 'mean', 'max', 'min')

OPS = ['new', 'conv', 'rows', 'row', 'get', 'set', 'binop', 'iop', 'reduce', 'clear',
       'setflags', 'remove_negatives', 'mix_from', 'copy_like', 'dense', 'from_flat',
       'query', 'sum_of', 'sparse_equal', 'shares', 'drop']
OP_WEIGHT = {'new': 2, 'conv': 3, 'rows': 2, 'row': 4, 'get': 5, 'set': 8, 'binop': 9, 'iop': 9,
             'reduce': 4, 'clear': 1, 'setflags': 1, 'remove_negatives': 1, 'mix_from': 3,
             'copy_like': 2, 'dense': 3, 'from_flat': 1, 'query': 3, 'sum_of': 1,
             'sparse_equal': 1, 'shares': 1, 'drop': 1}
WRITE_OPS = ('set', 'iop', 'clear', 'remove_negatives', 'mix_from', 'copy_like', 'from_flat')
OPERAND_KINDS = ['scalar', 'bscalar', 'list1', 'nd1', 'nd0', 'list2', 'nd2', 'deep', 'ref', 'self']
MAX_OBJS = 8

def make_cfg(rng, prop, tier):
    lo, hi = tier.get('steps', (10, 30))
    a = rng.choice([1.5, 2.0, 0.5, 2.5])
    vals = [0, a, -a] + [v for v in (0.25, 3, 1e-300, 1e300) if rng.random() < 0.5]
    n = rng.choice([1, 2, 2, 3, 3, 4, 5, 6])
    m = rng.choice([1, 2, 2, 3, 3])
    kinds = [k for k in ('sv', 'lv', 'sa', 'sab') if rng.random() < 0.7]
    if not kinds:
        kinds = [rng.choice(['sv', 'lv', 'sa', 'sab'])]
    ops = [o for o in OPS if rng.random() < 0.7]
    for must in ('set', 'iop'):
        if must not in ops and rng.random() < 0.7:
            ops.append(must)
    if not ops:
        ops = ['binop']
    okinds = [k for k in OPERAND_KINDS if rng.random() < 0.7]
    if not okinds:
        okinds = ['scalar']
    pz = rng.choice([0.2, 0.5, 0.8])
    universe = []
    for _ in range(rng.randint(3, 6)):
        kind = rng.choice(kinds)
        nn = 1 if rng.random() < 0.12 else n
        mm = 1 if rng.random() < 0.2 else m
        universe.append({'kind': kind, 'data': _rand_data(rng, kind, mm, nn, vals, pz)})
    return {
        'steps': rng.randint(lo, hi), 'regions': list(tier.get('regions', [])),
        'a': a, 'vals': vals, 'n': n, 'm': m, 'kinds': kinds, 'ops': ops, 'okinds': okinds,
        'pz': pz, 'universe': universe, 'p_f7': rng.choice([0.0, 0.05, 0.15]),
        'p_self': rng.choice([0.05, 0.2, 0.4]),
    }


def _rand_val(rng, vals, pz, boolean=False, nonzero=False):
    if boolean:
        return True if nonzero else (rng.random() >= pz)
    if not nonzero and rng.random() < pz:
        return 0
    nz = [v for v in vals if v != 0]
    return rng.choice(nz)


def _rand_data(rng, kind, m, n, vals, pz):
    boolean = kind in ('lv', 'sab')
    if kind in ('sv', 'lv'):
        return [_rand_val(rng, vals, pz, boolean) for _ in range(n)]
    return [[_rand_val(rng, vals, pz, boolean) for _ in range(n)] for _ in range(m)]


def World(prop, cfg):
    return SparseWorld(prop, cfg)


class Obj:
    __slots__ = ('kind', 'cells', 'real')

    def __init__(self, kind, cells, real):
        self.kind = kind      # 'v' (1-d) or 'a' (2-d)
        self.cells = cells    # list of cell ids
        self.real = real


class Plan:
    """What one event is expected to do (computed from the mirrors only)."""
    __slots__ = ('run', 'expect', 'why', 'ref', 'cmp', 'scale', 'writes', 'target', 'bind',
                 'nonfinite', 'dtype_strict', 'mech', 'check')

    def __init__(self, run):
        self.run = run            # callable(universe: name -> real object) -> result
        self.expect = 'ok'        # 'ok' | 'reject'
        self.why = None           # reason of a rejection ('readonly-write' | 'shape-mismatch')
        self.ref = None           # NumPy reference of the returned value (None: not compared)
        self.cmp = 'exact'        # 'exact' | 'tol' | 'none'
        self.scale = None         # magnitude of the summed terms for cmp == 'tol'
        self.writes = None        # (obj, new dense image) model post-state of the target
        self.target = None
        self.bind = None          # callable(result) registering a returned object
        self.nonfinite = False    # convention (iv): compare nothing, re-sync the target
        self.dtype_strict = False
        self.mech = False
        self.check = None         # extra callable(result) -> error text or None


def _is_sparse(x):
    return x.__class__ in SPARSE_CLASSES


def _dense(x):
    if _is_sparse(x):
        return x.to_array()
    return np.asarray(x)


def _strip(a):
    a = np.asarray(a)
    while a.ndim and a.shape[0] == 1:
        a = a[0]
    return a


def _finite(a):
    a = np.asarray(a)
    if a.dtype.kind in 'fc':
        return bool(np.isfinite(a).all())
    return True


def _jsonable(a):
    a = np.asarray(a)
    if a.dtype.kind == 'f':
        return [repr(float(x)) for x in a.ravel()]
    return [repr(x) for x in a.ravel().tolist()]


class SparseWorld(BaseWorld):

    def __init__(self, prop, cfg):
        super().__init__(prop, cfg)
        warnings.filterwarnings('ignore')
        self.regions = set(cfg.get('regions', []))
        self.cells = {}     # cell id -> 1-d ndarray (float64 or bool): the mirror of one stored row
        self.ro = {}        # cell id -> read-only flag
        self.ncell = 0
        self.objs = {}      # name -> Obj
        for i, spec in enumerate(cfg['universe']):
            boolean = spec['kind'] in ('lv', 'sab')
            real = sparse(spec['data'])
            self._bind_new(f'o{i}', real, np.array(spec['data'], dtype=bool if boolean else float))
        self.check_all({'op': 'init'}, 'state')

    # ------------------------------------------------------------ model helpers
    def _new_cell(self, arr):
        self.ncell += 1
        cid = self.ncell
        self.cells[cid] = np.array(arr)   # own copy
        self.ro[cid] = False
        return cid

    def img(self, o):
        if o.kind == 'v':
            return self.cells[o.cells[0]].copy()
        return np.array([self.cells[c] for c in o.cells])

    def is_bool(self, o):
        return self.cells[o.cells[0]].dtype == bool

    def shape(self, o):
        n = len(self.cells[o.cells[0]])
        return (n,) if o.kind == 'v' else (len(o.cells), n)

    def ro_state(self, o):
        flags = {self.ro[c] for c in o.cells}
        if len(flags) == 2:
            return 'mixed'
        return 'ro' if True in flags else 'rw'

    def write(self, o, new):
        new = np.asarray(new)
        if o.kind == 'v':
            self.cells[o.cells[0]][...] = new.reshape(self.cells[o.cells[0]].shape)
        else:
            new = new.reshape(len(o.cells), -1)
            for k, c in enumerate(o.cells):
                self.cells[c][...] = new[k]

    def resync(self, o):
        """Take the target's mirror from the real object (non-finite / rounding-order steps)."""
        arr = o.real.to_array()
        if arr.shape != self.shape(o):
            self.fail('state', f'shape of the target became {arr.shape}, model {self.shape(o)}')
        self.write(o, arr)

    def _bind_new(self, dst, real, image):
        kind = 'a' if real.__class__ is SparseArray else 'v'
        image = np.asarray(image)
        boolean = self._real_is_bool(real)
        image = image.astype(bool if boolean else float)
        if kind == 'v':
            image = image.reshape(-1)
            cells = [self._new_cell(image)]
        else:
            m = len(real.rows)
            image = image.reshape(m, -1) if m else image.reshape(0, 0)
            cells = [self._new_cell(image[k]) for k in range(m)]
        self.objs[dst] = Obj(kind, cells, real)

    def _bind_alias(self, dst, real, cells):
        kind = 'a' if real.__class__ is SparseArray else 'v'
        self.objs[dst] = Obj(kind, list(cells), real)

    @staticmethod
    def _real_is_bool(real):
        if real.__class__ is SparseArray:
            return bool(real.rows) and real.rows[0].__class__ is SparseLogicalVector
        return real.__class__ is SparseLogicalVector

    def _dst_ok(self, dst):
        if not isinstance(dst, str):
            return False
        return dst in self.objs or len(self.objs) < MAX_OBJS

    def universe(self):
        return {k: o.real for k, o in self.objs.items()}

    def fresh_universe(self):
        """The same dense content and alias structure in newly built objects."""
        cellobj = {}
        for cid in sorted(self.cells):
            arr = self.cells[cid]
            if arr.dtype == bool:
                v = SparseLogicalVector.from_set({i for i, x in enumerate(arr) if x}, len(arr))
            else:
                v = SparseVector.from_dict({i: float(x) for i, x in enumerate(arr) if x}, len(arr))
                v.read_only = self.ro[cid]
            cellobj[cid] = v
        built = []   # (real, fresh) pairs; identity lookup without hashing ids
        uni = {}
        for name in sorted(self.objs):
            o = self.objs[name]
            fresh = None
            for real, f in built:
                if real is o.real:
                    fresh = f
                    break
            if fresh is None:
                if o.kind == 'v':
                    fresh = cellobj[o.cells[0]]
                else:
                    fresh = SparseArray.from_rows([cellobj[c] for c in o.cells])
                built.append((o.real, fresh))
            uni[name] = fresh
        return uni

    def _gc(self):
        live = set()
        for o in self.objs.values():
            live.update(o.cells)
        for cid in [c for c in self.cells if c not in live]:
            del self.cells[cid]
            del self.ro[cid]

    # ------------------------------------------------------------ operands and indices
    def _operand_ok(self, spec):
        if not isinstance(spec, dict):
            return False
        k = spec.get('k')
        if k == 'ref':
            return spec.get('name') in self.objs
        return k in ('py', 'nd') and 'v' in spec

    def _operand_np(self, spec):
        k = spec['k']
        if k == 'ref':
            return self.img(self.objs[spec['name']])
        if k == 'nd':
            return np.array(spec['v'], dtype={'f': float, 'b': bool, 'i': int}[spec.get('dt', 'f')])
        v = spec['v']
        if isinstance(v, list):
            return np.asarray(v)
        return v

    @staticmethod
    def _operand_real(spec, uni):
        k = spec['k']
        if k == 'ref':
            return uni[spec['name']]
        if k == 'nd':
            return np.array(spec['v'], dtype={'f': float, 'b': bool, 'i': int}[spec.get('dt', 'f')])
        v = spec['v']
        if isinstance(v, list):
            return _deep_list(v)
        return v

    def _operand_cells(self, spec):
        if spec.get('k') == 'ref' and spec.get('name') in self.objs:
            return self.objs[spec['name']].cells
        return []

    def _index(self, spec, shape, np_side, uni=None):
        """Index object from its JSON form; None when it does not fit `shape`."""
        if not isinstance(spec, dict):
            return None
        t = spec.get('t')
        if t == 'tuple':
            elems = spec.get('e', [])
            if len(elems) != len(shape):
                return None
            out = []
            for dim, e in enumerate(elems):
                if e.get('t') in ('tuple', 'mask2', 'smask'):
                    return None
                x = self._index(e, (shape[dim],), np_side, uni)
                if x is None:
                    return None
                out.append(x)
            if len(out) == 2:
                adv = [e.get('t') in ('list', 'nd', 'mask') for e in elems]
                if all(adv):
                    if 'mask' in (elems[0]['t'], elems[1]['t']):
                        return None
                    if len(elems[0]['v']) != len(elems[1]['v']):
                        return None
            return tuple(out)
        n = shape[0]
        if t == 'int':
            i = spec.get('i')
            if not isinstance(i, int) or isinstance(i, bool) or not 0 <= i < n:
                return None
            return i
        if t == 'slice':
            a, b, s = spec.get('a'), spec.get('b'), spec.get('s')
            for x in (a, b):
                if x is not None and not (isinstance(x, int) and 0 <= x <= n):
                    return None
            if s is not None and not (isinstance(s, int) and s >= 1):
                return None
            return slice(a, b, s)
        if t in ('list', 'nd'):
            v = spec.get('v')
            if not v or not all(isinstance(i, int) and not isinstance(i, bool) and 0 <= i < n for i in v):
                return None
            if t == 'nd' or np_side:
                return np.array(v, dtype=int)
            return list(v)
        if t == 'mask':
            v = spec.get('v')
            if not isinstance(v, list) or len(v) != n or not all(isinstance(i, bool) for i in v):
                return None
            if spec.get('nd') or np_side:
                return np.array(v, dtype=bool)
            return list(v)
        if t == 'mask2':
            v = spec.get('v')
            try:
                arr = np.array(v, dtype=bool)
            except Exception:
                return None
            if arr.shape != tuple(shape) or len(shape) != 2:
                return None
            return arr
        if t == 'smask':
            o = self.objs.get(spec.get('name'))
            if o is None or not self.is_bool(o) or self.shape(o) != tuple(shape):
                return None
            if np_side:
                return self.img(o)
            return uni[spec['name']]
        return None

    # ------------------------------------------------------------ oracles
    def check_repr(self, real, label, ev):
        cls = real.__class__
        if cls is SparseArray:
            rows = real.rows
            sizes = []
            for k, row in enumerate(rows):
                if row.__class__ not in (SparseVector, SparseLogicalVector):
                    self.fail('repr:row-type', f'{label}: row {k} is a {type(row).__name__}', {'event': ev})
                self.check_repr(row, f'{label}.rows[{k}]', ev)
                sizes.append(row.size)
            if len(set(sizes)) > 1:
                self.fail('repr:row-sizes', f'{label}: rows have different sizes {sizes}', {'event': ev})
            if len({row.__class__ for row in rows}) > 1:
                self.fail('repr:row-types', f'{label}: rows mix float and logical vectors', {'event': ev})
            return
        size = real.size
        if not isinstance(size, (int, np.integer)) or isinstance(size, bool) or size < 0:
            self.fail('repr:size', f'{label}: size is {size!r}', {'event': ev})
        if cls is SparseVector:
            dct = real.dct
            if dct.__class__ is not dict:
                self.fail('repr:container', f'{label}: dct is a {type(dct).__name__}', {'event': ev})
            for k, v in dct.items():
                if isinstance(k, bool) or not isinstance(k, (int, np.integer)) or not 0 <= k < size:
                    self.fail('repr:key-out-of-range', f'{label}: stored key {k!r} outside range({size})',
                              {'event': ev, 'stored': {repr(a): repr(b) for a, b in dct.items()}})
                if v == 0:
                    self.fail('repr:stored-zero', f'{label}: zero stored at index {k}',
                              {'event': ev, 'stored': {repr(a): repr(b) for a, b in dct.items()}})
        elif cls is SparseLogicalVector:
            st = real.set
            if st.__class__ is not set:
                self.fail('repr:container', f'{label}: set is a {type(st).__name__}', {'event': ev})
            for k in st:
                if isinstance(k, bool) or not isinstance(k, (int, np.integer)) or not 0 <= k < size:
                    self.fail('repr:key-out-of-range', f'{label}: stored key {k!r} outside range({size})',
                              {'event': ev, 'stored': sorted(map(repr, st))})

    def check_all(self, ev, oracle):
        for name in sorted(self.objs):
            o = self.objs[name]
            self.check_repr(o.real, name, ev)
            try:
                got = o.real.to_array()
            except Exception as e:
                self.fail(oracle, f'{name}.to_array() raised {type(e).__name__}: {e}', {'event': ev})
            want = self.img(o)
            bad = None
            if got.shape != want.shape:
                bad = f'shape {got.shape}, expected {want.shape}'
            elif (got.dtype == bool) != (want.dtype == bool):
                bad = f'dtype {got.dtype}, expected {want.dtype}'
            elif not _same(got, want):
                bad = 'values differ'
            if bad:
                self.fail(oracle, f'{name} ({self._describe(o)}): dense image differs from its mirror: {bad}',
                          {'event': ev, 'object': name, 'got': _jsonable(got), 'mirror': _jsonable(want),
                           'universe': self.describe()})

    def _describe(self, o):
        return f"{'bool' if self.is_bool(o) else 'float'} {'x'.join(map(str, self.shape(o)))} cells {o.cells}"

    def describe(self):
        return {k: {'kind': o.kind, 'cells': o.cells, 'ro': [self.ro[c] for c in o.cells],
                    'mirror': _jsonable(self.img(o))} for k, o in sorted(self.objs.items())}

    def compare_result(self, plan, res, ev):
        if plan.check is not None:
            msg = plan.check(res)
            if msg:
                self.fail('result', f"{ev['op']}: {msg}", {'event': ev, 'universe': self.describe()})
        if plan.ref is None or plan.cmp == 'none':
            return
        try:
            got = _dense(res)
        except Exception as e:
            self.fail('result', f"{ev['op']}: dense image of the result raised {type(e).__name__}: {e}",
                      {'event': ev})
        ref = np.asarray(plan.ref)
        g, r = _strip(got), _strip(ref)
        detail = {'event': ev, 'got': _jsonable(got), 'numpy': _jsonable(ref),
                  'got_shape': list(got.shape), 'numpy_shape': list(ref.shape), 'universe': self.describe()}
        if g.dtype == object:
            self.fail('result', f"{ev['op']}: result has object dtype", detail)
        if g.shape != r.shape:
            self.fail('result-shape', f"{ev['op']}: result shape {got.shape}, NumPy {ref.shape}", detail)
        if plan.dtype_strict and r.dtype == bool and g.dtype != bool and r.size:
            self.fail('result-dtype', f"{ev['op']}: result dtype {got.dtype}, NumPy bool", detail)
        if plan.cmp == 'exact':
            if not _same(g, r):
                self.fail('result', f"{ev['op']}: result differs from NumPy", detail)
        else:
            scale = _strip(np.asarray(plan.scale, dtype=float))
            tol = 16 * EPS * scale + 5e-324
            with np.errstate(all='ignore'):
                diff = np.abs(g.astype(float) - r.astype(float))
            if not bool(np.all(diff <= tol)):
                self.fail('result', f"{ev['op']}: result differs from NumPy beyond summation-order rounding",
                          detail)

    # ------------------------------------------------------------ execution
    def apply(self, ev):
        op = ev.get('op')
        if op == 'noop':
            return 'noop'
        handler = getattr(self, '_p_' + str(op), None)
        if handler is None:
            return 'skip:pre'
        with np.errstate(all='ignore'):
            plan = handler(ev)
        if plan is None:
            return 'skip:pre'
        self.stats[f'op:{op}'] += 1
        sub = ev.get('opr') or ev.get('how') or ev.get('fn')
        if sub:
            self.stats[f'sub:{op}.{sub}'] += 1
        if plan.mech:
            self.stats['mechanism_ops'] += 1
        raised = None
        res = None
        try:
            with warnings.catch_warnings():
                warnings.simplefilter('ignore')
                res = plan.run(self.universe())
        except Violation:
            raise
        except Exception as e:
            raised = e
        if plan.expect == 'reject':
            if raised is None:
                self.fail('missing-rejection:' + plan.why,
                          f"{op}: {plan.why} was not rejected", {'event': ev, 'universe': self.describe()})
            self.stats['fault:' + plan.why] += 1
            self.check_all(ev, 'rejected-op-changed-state')
            return f'rejected:{type(raised).__name__}'
        if raised is not None and plan.nonfinite and isinstance(raised, ArithmeticError):
            # convention (iv): inf - inf, 0 * inf ... have no reference value; whether Python floats
            # (nan) or NumPy scalars (FloatingPointError under thermosteam's np.seterr) meet is immaterial
            self.stats['nonfinite_steps'] += 1
            if plan.writes is not None:
                self.resync(plan.writes[0])
            self.check_all(ev, 'state')
            return f'nonfinite:{type(raised).__name__}'
        if raised is not None:
            again = None
            try:
                with warnings.catch_warnings():
                    warnings.simplefilter('ignore')
                    plan.run(self.fresh_universe())
            except Exception as e2:
                again = e2
            if again is None or type(again) is not type(raised):
                self.fail('history-dependent-exception',
                          f"{op}: raised {type(raised).__name__}: {raised}; the same operation on fresh objects "
                          f"with the same dense content " +
                          ('succeeds' if again is None else f'raises {type(again).__name__}'),
                          {'event': ev, 'universe': self.describe()})
            self.stats[f'unsupported:{op}:{sub}:{type(raised).__name__}'] += 1
            self.check_all(ev, 'exception-changed-state')
            return f'unsupported:{type(raised).__name__}'
        if _is_sparse(res):
            self.check_repr(res, 'result', ev)
        if plan.nonfinite:
            self.stats['nonfinite_steps'] += 1
            if plan.writes is not None:
                self.resync(plan.writes[0])
            if plan.bind is not None:
                plan.bind(res, True)
            obs = 'nonfinite'
        else:
            self.compare_result(plan, res, ev)
            if plan.writes is not None:
                if plan.cmp == 'tol':
                    want = np.asarray(plan.writes[1], dtype=float)
                    got = plan.writes[0].real.to_array()
                    tol = 16 * EPS * np.asarray(plan.scale, dtype=float) + 5e-324
                    if got.shape != want.shape or not bool(np.all(np.abs(got - want) <= tol)):
                        self.fail('state', f"{op}: target differs from NumPy beyond summation-order rounding",
                                  {'event': ev, 'got': _jsonable(got), 'numpy': _jsonable(want),
                                   'universe': self.describe()})
                    self.resync(plan.writes[0])
                else:
                    self.write(*plan.writes)
            if plan.bind is not None:
                plan.bind(res, False)
            obs = _obs(res)
        self._gc()
        self.check_all(ev, 'state')
        return obs

    def finish(self):
        self.check_all({'op': 'finish'}, 'state')

    def abstract_state(self):
        out = []
        relabel = {}
        for name in sorted(self.objs):
            o = self.objs[name]
            im = self.img(o)
            out.append((o.kind, 'b' if im.dtype == bool else 'f', im.shape,
                        tuple(np.sign(im.astype(float)).ravel().tolist()) if _finite(im) else 'nonfinite',
                        tuple(self.ro[c] for c in o.cells),
                        tuple(relabel.setdefault(c, len(relabel)) for c in o.cells)))
        return out

    def shared_touch(self, ev):
        other = ev.get('other') or ev.get('value') or {}
        return (ev.get('op'), ev.get('target') or ev.get('src'), ev.get('opr'),
                other.get('name') if isinstance(other, dict) else None)

    # ================================================================= plans
    def _guard_write(self, plan, t):
        """Writes to a read-only target must be rejected; partly read-only targets are not generated."""
        plan.mech = True
        st = self.ro_state(t)
        if st == 'mixed':
            return None
        if st == 'ro':
            plan.expect, plan.why = 'reject', 'readonly-write'
        return plan

    def _binder(self, dst, ref):
        if dst is None:
            return None

        def bind(res, use_real):
            if not _is_sparse(res):
                return
            if res.__class__ is SparseArray and not res.rows:
                return
            for o in self.objs.values():      # a result that IS a live object: alias, not a new object
                if o.real is res:
                    self._bind_alias(dst, res, o.cells)
                    return
            image = res.to_array() if (use_real or ref is None) else np.asarray(ref)
            if image.size != int(np.prod(res.shape)):
                return
            self._bind_new(dst, res, image)
        return bind

    # ---------------------------------------------------------------- construction
    def _p_new(self, ev):
        dst, how, data = ev.get('dst'), ev.get('how'), ev.get('data')
        if not self._dst_ok(dst):
            return None
        as_nd = bool(ev.get('as_nd'))
        size = ev.get('size')
        try:
            arr = np.array(data) if data is not None else None
        except Exception:
            return None
        if arr is not None and (arr.dtype == object or arr.size == 0 or arr.ndim not in (1, 2)):
            return None
        boolean = arr is not None and arr.dtype == bool

        def given():
            if as_nd:
                return np.array(data, dtype=bool if boolean else float)
            return _deep_list(data)
        if how in ('sparse', 'sparse_vector', 'SparseVector', 'SparseLogicalVector'):
            if arr is None or (arr.ndim != 1 and how != 'sparse'):
                return None
            if how == 'sparse':
                ref = arr
                run = lambda uni: sparse(given())
            elif how == 'sparse_vector':
                ref = arr
                run = lambda uni: sparse_vector(given())
            else:
                n = len(arr)
                if size is not None and not (isinstance(size, int) and n <= size <= 8):
                    return None
                ref = np.zeros(size if size is not None else n, dtype=float if how == 'SparseVector' else bool)
                ref[:n] = arr
                cls = SparseVector if how == 'SparseVector' else SparseLogicalVector
                run = lambda uni: cls(given(), size) if size is not None else cls(given())
        elif how in ('sparse_array', 'SparseArray'):
            if arr is None or arr.ndim != 2:
                return None
            ref = arr
            f = sparse_array if how == 'sparse_array' else SparseArray
            run = lambda uni: f(given())
        elif how in ('dict', 'from_dict', 'from_set', 'sparse_dicts'):
            # data: list of [index, value] pairs (one list per row for sparse_dicts)
            if not isinstance(size, int) or not 1 <= size <= 8 or not isinstance(data, list):
                return None
            rows = data if how == 'sparse_dicts' else [data]
            try:
                for row in rows:
                    for k, v in row:
                        if not (isinstance(k, int) and 0 <= k < size):
                            return None
                        if how in ('from_dict', 'from_set') and not v:
                            return None
            except Exception:
                return None
            if how == 'sparse_dicts' and not rows:
                return None
            ref = np.zeros((len(rows), size), dtype=bool if how == 'from_set' else float)
            for i, row in enumerate(rows):
                for k, v in row:
                    ref[i, k] = v
            if how != 'sparse_dicts':
                ref = ref[0]
            if how == 'dict':
                run = lambda uni: SparseVector({k: v for k, v in data}, size)
            elif how == 'from_dict':
                run = lambda uni: SparseVector.from_dict({k: float(v) for k, v in data}, size)
            elif how == 'from_set':
                run = lambda uni: SparseLogicalVector.from_set({k for k, v in data}, size)
            else:
                run = lambda uni: sparse([{k: v for k, v in row} for row in rows], vector_size=size)
        elif how in ('from_size', 'lfrom_size', 'size_only', 'lsize_only'):
            if not isinstance(size, int) or not 1 <= size <= 8:
                return None
            ref = np.zeros(size, dtype=bool if how[0] == 'l' else float)
            run = {'from_size': lambda uni: SparseVector.from_size(size),
                   'lfrom_size': lambda uni: SparseLogicalVector.from_size(size),
                   'size_only': lambda uni: SparseVector(size=size),
                   'lsize_only': lambda uni: SparseLogicalVector(size=size)}[how]
        elif how == 'from_shape':
            if (not isinstance(size, list) or len(size) != 2
                    or not all(isinstance(x, int) and 1 <= x <= 8 for x in size)):
                return None
            ref = np.zeros(size)
            run = lambda uni: SparseArray.from_shape(list(size))
        else:
            return None
        plan = Plan(run)
        plan.ref = ref
        plan.dtype_strict = how not in ('SparseVector',)
        plan.bind = self._binder(dst, ref)
        want_cls = SparseArray if np.asarray(ref).ndim == 2 else (
            SparseLogicalVector if np.asarray(ref).dtype == bool else SparseVector)
        if how == 'SparseVector':
            want_cls = SparseVector
        plan.check = lambda res: None if res.__class__ is want_cls else (
            f'{how} returned a {type(res).__name__}, expected {want_cls.__name__}')
        return plan

    def _p_conv(self, ev):
        src = self.objs.get(ev.get('src'))
        dst, how = ev.get('dst'), ev.get('how')
        if src is None or not self._dst_ok(dst):
            return None
        A = self.img(src)
        name = ev['src']
        isv = src.kind == 'v'
        alias = False
        ref = A
        if how == 'copy':
            run = lambda uni: uni[name].copy()
        elif how == 'sparse':
            alias, run = True, (lambda uni: sparse(uni[name]))
        elif how in ('sparse_vector', 'sparse_vector_copy'):
            if not isv:
                return None
            alias = how == 'sparse_vector'
            run = (lambda uni: sparse_vector(uni[name])) if alias else (lambda uni: sparse_vector(uni[name], copy=True))
        elif how in ('sparse_array', 'sparse_array_copy'):
            if isv:
                return None
            alias = how == 'sparse_array'
            run = (lambda uni: sparse_array(uni[name])) if alias else (lambda uni: sparse_array(uni[name], copy=True))
        elif how == 'SparseVector':
            if not isv:
                return None
            ref = A.astype(float)
            run = lambda uni: SparseVector(uni[name])
        elif how == 'SparseLogicalVector':
            if not isv:
                return None
            ref = A != 0
            run = lambda uni: SparseLogicalVector(uni[name])
        elif how == 'SparseArray':
            if isv:
                return None
            alias = True      # a new array object holding the SAME row vectors
            run = lambda uni: SparseArray(uni[name])
        elif how == 'abs':
            ref = np.abs(A)
            run = lambda uni: abs(uni[name])
        elif how == 'neg':
            if A.dtype == bool:
                return None
            ref = -A
            run = lambda uni: -uni[name]
        elif how == 'invert':
            if A.dtype != bool:
                return None
            ref = ~A
            run = lambda uni: ~uni[name]
        elif how in ('getself', 'getself2'):
            if how == 'getself2' and isv:
                return None
            alias = True
            ix = slice(None) if how == 'getself' else (slice(None), slice(None))
            run = lambda uni: uni[name][ix]
        else:
            return None
        plan = Plan(run)
        plan.ref = ref
        plan.dtype_strict = True
        plan.nonfinite = not _finite(ref)
        if alias:
            cells = list(src.cells)
            plan.mech = True

            def bind(res, use_real):
                if _is_sparse(res):
                    self._bind_alias(dst, res, cells)
            plan.bind = bind
        else:
            plan.bind = self._binder(dst, ref)
        return plan

    def _p_rows(self, ev):
        srcs, dst, how = ev.get('srcs'), ev.get('dst'), ev.get('how')
        if not isinstance(srcs, list) or not srcs or len(srcs) > 3 or not self._dst_ok(dst):
            return None
        objs = [self.objs.get(s) for s in srcs]
        if any(o is None or o.kind != 'v' for o in objs):
            return None
        cells = [o.cells[0] for o in objs]
        if len(set(cells)) != len(cells):
            return None
        if len({len(self.cells[c]) for c in cells}) != 1 or len({self.cells[c].dtype for c in cells}) != 1:
            return None
        f = {'from_rows': SparseArray.from_rows, 'SparseArray': SparseArray, 'sparse_array': sparse_array,
             'sparse': sparse}.get(how)
        if f is None:
            return None
        plan = Plan(lambda uni: f([uni[s] for s in srcs]))
        plan.ref = np.array([self.cells[c] for c in cells])
        plan.dtype_strict = True
        plan.mech = True
        plan.nonfinite = not _finite(plan.ref)

        def bind(res, use_real):
            if res.__class__ is SparseArray:
                self._bind_alias(dst, res, cells)
        plan.bind = bind
        plan.check = lambda res: None if res.__class__ is SparseArray else f'{how} returned {type(res).__name__}'
        return plan

    def _p_row(self, ev):
        src = self.objs.get(ev.get('src'))
        dst, how, i = ev.get('dst'), ev.get('how'), ev.get('i')
        if src is None or src.kind != 'a' or not self._dst_ok(dst):
            return None
        m = len(src.cells)
        name = ev['src']
        if how in ('int', 'tuple', 'iter'):
            if not isinstance(i, int) or isinstance(i, bool) or not 0 <= i < m:
                return None
            sel = [i]
            vector = True
            if how == 'int':
                run = lambda uni: uni[name][i]
            elif how == 'tuple':
                run = lambda uni: uni[name][i, :]
            else:
                run = lambda uni: [row for row in uni[name]][i]
        elif how in ('list', 'nd', 'tlist'):
            if (not isinstance(i, list) or not i or len(set(i)) != len(i)
                    or not all(isinstance(k, int) and not isinstance(k, bool) and 0 <= k < m for k in i)):
                return None
            sel = list(i)
            vector = False
            if how == 'list':
                run = lambda uni: uni[name][list(i)]
            elif how == 'nd':
                run = lambda uni: uni[name][np.array(i, dtype=int)]
            else:
                run = lambda uni: uni[name][list(i), :]
        elif how in ('mask', 'ndmask', 'tmask'):
            if not isinstance(i, list) or len(i) != m or not all(isinstance(k, bool) for k in i) or not any(i):
                return None
            sel = [k for k, b in enumerate(i) if b]
            vector = False
            if how == 'mask':
                run = lambda uni: uni[name][list(i)]
            elif how == 'ndmask':
                run = lambda uni: uni[name][np.array(i, dtype=bool)]
            else:
                run = lambda uni: uni[name][list(i), :]
        elif how == 'slice':
            ix = self._index({'t': 'slice', 'a': i[0], 'b': i[1], 's': i[2]} if isinstance(i, list) and len(i) == 3
                             else None, (m,), False)
            if ix is None:
                return None
            sel = list(range(m))[ix]
            if not sel:
                return None
            vector = False
            run = lambda uni: uni[name][ix]
        else:
            return None
        cells = [src.cells[k] for k in sel]
        plan = Plan(run)
        A = self.img(src)
        plan.ref = A[sel[0]] if vector else A[sel]
        plan.dtype_strict = True
        plan.mech = True
        plan.nonfinite = not _finite(plan.ref)
        want = (SparseVector, SparseLogicalVector) if vector else (SparseArray,)
        plan.check = lambda res: None if res.__class__ in want else (
            f'row selection {how} returned a {type(res).__name__}')

        def bind(res, use_real):
            if res.__class__ in want:
                self._bind_alias(dst, res, cells)
        plan.bind = bind
        return plan

    def _p_drop(self, ev):
        name = ev.get('target')
        if name not in self.objs or len(self.objs) <= 2:
            return None

        def run(uni):
            return None
        plan = Plan(run)

        def bind(res, use_real):
            del self.objs[name]
        plan.bind = bind
        plan.cmp = 'none'
        return plan

    # ---------------------------------------------------------------- get / set
    def _form_supported(self, t, spec, setting):
        """Index forms outside what tests/test_sparse.py exercises (convention v) are not generated:
        a boolean mask next to a non-slice partner, an ndarray column index next to a row slice
        (raises ValueError in `n == open_slice`), fancy-row/int-column assignment on logical arrays."""
        if spec.get('t') != 'tuple' or len(spec.get('e', [])) != 2:
            return True
        e0, e1 = spec['e'][0].get('t'), spec['e'][1].get('t')
        if e0 == 'mask' and e1 != 'slice':
            return False
        if e1 == 'mask' and e0 == 'mask':
            return False
        if e1 == 'nd' and e0 == 'slice':
            return False
        if setting and self.is_bool(t) and e0 in ('list', 'nd') and e1 == 'int':
            return False
        return True

    def _dest_cells(self, t, ix):
        if t.kind == 'v':
            return list(t.cells)
        row = ix['e'][0] if ix.get('t') == 'tuple' else ix
        if row.get('t') in ('int', 'slice', 'list', 'nd', 'mask'):
            sel = np.arange(len(t.cells))[self._index(row, (len(t.cells),), True)]
            return [t.cells[k] for k in np.atleast_1d(sel)]
        return list(t.cells)

    def _p_get(self, ev):
        t = self.objs.get(ev.get('target'))
        if t is None or not isinstance(ev.get('index'), dict):
            return None
        shape = self.shape(t)
        ni = self._index(ev.get('index'), shape, True)
        if ni is None or not self._form_supported(t, ev['index'], False):
            return None
        A = self.img(t)
        try:
            ref = A[ni]
        except (IndexError, ValueError):
            return None
        if t.kind == 'a' and np.size(ref) == 0:
            return None      # a SparseArray without rows cannot carry its width
        name, spec = ev['target'], ev['index']
        plan = Plan(lambda uni: uni[name][self._index(spec, shape, False, uni)])
        plan.ref = np.array(ref)
        plan.dtype_strict = True
        plan.nonfinite = not _finite(ref)
        return plan

    def _p_set(self, ev):
        t = self.objs.get(ev.get('target'))
        if t is None or not self._operand_ok(ev.get('value')):
            return None
        shape = self.shape(t)
        if not isinstance(ev.get('index'), dict):
            return None
        ni = self._index(ev.get('index'), shape, True)
        if ni is None or not self._form_supported(t, ev['index'], True):
            return None
        A = self.img(t)
        V = self._operand_np(ev['value'])
        if np.asarray(V).dtype == object:
            return None
        try:
            nsel = np.size(A[ni])
        except (IndexError, ValueError):
            return None
        if nsel == 0 and (t.kind == 'a' or np.ndim(V) > 0):
            return None
        vc = self._operand_cells(ev['value'])
        if vc and set(vc) & set(self._dest_cells(t, ev['index'])):
            # the value overlaps the assigned rows: NumPy's own result for x[idx] = x is not
            # specified for fancy indices; only the whole-object form x[:] = x is kept
            if not (_full(ev['index']) and list(vc) == list(t.cells)):
                return None
        A2 = A.copy()
        name, spec, vspec = ev['target'], ev['index'], ev['value']
        plan = Plan(lambda uni: uni[name].__setitem__(self._index(spec, shape, False, uni),
                                                      self._operand_real(vspec, uni)))
        plan.cmp = 'none'
        plan.target = t
        try:
            A2[ni] = V
        except ValueError:
            plan.expect, plan.why = 'reject', 'shape-mismatch'
            plan.mech = True
            return plan if self.ro_state(t) != 'mixed' else None
        except (IndexError, TypeError):
            return None
        plan.writes = (t, A2)
        plan.nonfinite = not (_finite(A) and _finite(V))
        return self._guard_write(plan, t)

    # ---------------------------------------------------------------- arithmetic
    def _binop_ref(self, opr, A, B, refl):
        """NumPy reference of A opr B; returns (status, value): 'ok' | 'mismatch' | 'none'."""
        f = BINOPS[opr]
        Bn = np.asarray(B)
        if Bn.dtype == object:
            return 'none', None
        if opr in LOGICAL and not (A.dtype == bool and Bn.dtype == bool):
            return 'none', None
        if opr == 'truediv':
            div = A if refl else Bn
            if bool(np.any(div == 0)):
                return 'none', None
        try:
            ref = f(Bn, A) if refl else f(A, Bn)
        except ValueError:
            return 'mismatch', None
        except TypeError:
            return 'none', None
        if ref is NotImplemented or not isinstance(ref, (np.ndarray, np.generic)):
            return 'none', None
        return 'ok', np.asarray(ref)

    def _p_binop(self, ev):
        t = self.objs.get(ev.get('target'))
        opr, other, dst = ev.get('opr'), ev.get('other'), ev.get('dst')
        if t is None or opr not in BINOPS or not self._operand_ok(other):
            return None
        if dst is not None and not self._dst_ok(dst):
            return None
        refl = bool(ev.get('refl'))
        if refl and other['k'] == 'ref':
            return None
        A = self.img(t)
        B = self._operand_np(other)
        status, ref = self._binop_ref(opr, A, B, refl)
        if status == 'none':
            return None
        f = BINOPS[opr]
        name = ev['target']
        if refl:
            run = lambda uni: f(self._operand_real(other, uni), uni[name])
        else:
            run = lambda uni: f(uni[name], self._operand_real(other, uni))
        plan = Plan(run)
        if status == 'mismatch':
            plan.expect, plan.why = 'reject', 'shape-mismatch'
            return plan
        plan.ref = ref
        plan.dtype_strict = opr in COMPARE or opr in LOGICAL
        plan.nonfinite = not (_finite(A) and _finite(B) and _finite(ref))
        plan.bind = self._binder(dst, ref)
        if set(self._operand_cells(other)) & set(t.cells):
            plan.mech = True
        return plan

    def _p_iop(self, ev):
        t = self.objs.get(ev.get('target'))
        opr, other = ev.get('opr'), ev.get('other')
        if t is None or opr not in IOPS or not self._operand_ok(other):
            return None
        base = opr[1:]
        A = self.img(t)
        B = self._operand_np(other)
        status, out = self._binop_ref(base, A, B, False)
        if status == 'none':
            return None
        f = IOPS[opr]
        name = ev['target']
        form = ev.get('form', 'plain')
        if form == 'plain':
            run = lambda uni: f(uni[name], self._operand_real(other, uni))
        elif form == 'slice':
            def run(uni):
                x = uni[name]
                y = x[slice(None)]
                y = f(y, self._operand_real(other, uni))
                x[slice(None)] = y
                return x
        else:
            return None
        plan = Plan(run)
        plan.target = t
        if status == 'mismatch':
            plan.expect, plan.why = 'reject', 'shape-mismatch'
            plan.mech = True
            return plan if self.ro_state(t) != 'mixed' else None
        if out.shape != A.shape:
            return None           # convention (iii): NumPy itself refuses this in-place form
        A2 = A.copy()
        try:
            A2 = f(A2, np.asarray(B))
        except (TypeError, ValueError):
            return None
        if A2.shape != A.shape or A2.dtype != A.dtype:
            return None
        plan.ref = A2
        plan.writes = (t, A2)
        plan.nonfinite = not (_finite(A) and _finite(B) and _finite(A2))
        real_t = t.real
        plan.check = lambda res: None if res is real_t else 'in-place operator returned a different object'
        return self._guard_write(plan, t)

    def _p_reduce(self, ev):
        t = self.objs.get(ev.get('target'))
        fn, axis, keep, dst = ev.get('fn'), ev.get('axis'), bool(ev.get('keepdims')), ev.get('dst')
        if t is None or fn not in REDUCTIONS:
            return None
        if dst is not None and not self._dst_ok(dst):
            return None
        A = self.img(t)
        if axis is not None and not (isinstance(axis, int) and 0 <= axis < A.ndim):
            return None
        ref = getattr(A, fn)(axis=axis, keepdims=keep)
        name = ev['target']
        style = ev.get('style', 'kw')
        if style == 'pos':
            run = lambda uni: getattr(uni[name], fn)(axis, keep)
        elif style == 'default' and axis is None and not keep:
            run = lambda uni: getattr(uni[name], fn)()
        else:
            run = lambda uni: getattr(uni[name], fn)(axis=axis, keepdims=keep)
        plan = Plan(run)
        plan.ref = ref
        plan.nonfinite = not _finite(A)
        if fn in ('sum', 'mean') and A.dtype != bool:
            plan.cmp = 'tol'
            scale = np.abs(A).sum(axis=axis, keepdims=keep)
            plan.scale = scale * A.size
        plan.dtype_strict = fn in ('any', 'all')
        plan.bind = self._binder(dst, None if plan.cmp == 'tol' else ref)
        return plan

    # ---------------------------------------------------------------- other writes
    def _p_clear(self, ev):
        t = self.objs.get(ev.get('target'))
        if t is None or (t.kind == 'v' and self.is_bool(t)):
            return None      # SparseLogicalVector has no clear()
        name = ev['target']
        plan = Plan(lambda uni: uni[name].clear())
        plan.cmp = 'none'
        plan.target = t
        plan.writes = (t, np.zeros_like(self.img(t)))
        return self._guard_write(plan, t)

    def _p_setflags(self, ev):
        t = self.objs.get(ev.get('target'))
        if t is None or self.is_bool(t):
            return None      # logical vectors carry no read-only flag
        name = ev['target']
        plan = Plan(lambda uni: uni[name].setflags(0))
        plan.cmp = 'none'
        plan.mech = True
        cells = list(t.cells)

        def bind(res, use_real):
            for c in cells:
                self.ro[c] = True
        plan.bind = bind
        return plan

    def _p_remove_negatives(self, ev):
        t = self.objs.get(ev.get('target'))
        if t is None:
            return None
        A = self.img(t)
        name = ev['target']
        plan = Plan(lambda uni: uni[name].remove_negatives())
        plan.cmp = 'none'
        plan.target = t
        A2 = A.copy()
        if A.dtype != bool:
            A2[A2 < 0] = 0
        plan.writes = (t, A2)
        if A.dtype == bool:
            plan.mech = True
            return plan          # documented no-op for logical data, nothing to reject
        return self._guard_write(plan, t)

    def _p_mix_from(self, ev):
        t = self.objs.get(ev.get('target'))
        others = ev.get('others')
        if t is None or t.kind != 'v' or self.is_bool(t) or not isinstance(others, list) or len(others) > 4:
            return None
        objs = [self.objs.get(s) for s in others]
        n = self.shape(t)[0]
        if any(o is None or o.kind != 'v' or self.is_bool(o) or self.shape(o)[0] != n for o in objs):
            return None
        imgs = [self.img(o) for o in objs]
        name = ev['target']
        plan = Plan(lambda uni: uni[name].mix_from([uni[s] for s in others]))
        plan.target = t
        if imgs:
            new = np.sum(np.array(imgs), axis=0)
            scale = np.sum(np.abs(np.array(imgs)), axis=0) * (len(imgs) + 1)
        else:
            new = np.zeros(n)
            scale = np.zeros(n)
        plan.cmp = 'tol'
        plan.scale = scale
        plan.writes = (t, new)
        plan.nonfinite = not all(_finite(i) for i in imgs)
        return self._guard_write(plan, t)

    def _p_copy_like(self, ev):
        t = self.objs.get(ev.get('target'))
        o = self.objs.get(ev.get('other'))
        if t is None or o is None or self.is_bool(t) or t.kind != o.kind or self.shape(t) != self.shape(o):
            return None
        name, oname = ev['target'], ev['other']
        plan = Plan(lambda uni: uni[name].copy_like(uni[oname]))
        plan.cmp = 'none'
        plan.target = t
        plan.writes = (t, self.img(o).astype(float))
        plan.nonfinite = not _finite(self.img(o))
        return self._guard_write(plan, t)

    def _p_from_flat(self, ev):
        t = self.objs.get(ev.get('target'))
        data = ev.get('data')
        if t is None or not isinstance(data, list):
            return None
        A = self.img(t)
        try:
            V = np.array(data)
        except Exception:
            return None
        if V.ndim != 1 or V.size != A.size or V.dtype == object:
            return None
        name = ev['target']
        as_nd = bool(ev.get('as_nd'))
        plan = Plan(lambda uni: uni[name].from_flat_array(np.array(data) if as_nd else list(data)))
        plan.cmp = 'none'
        plan.target = t
        A2 = A.copy()
        A2[...] = V.reshape(A.shape)
        plan.writes = (t, A2)
        plan.nonfinite = not _finite(V)
        if A.dtype == bool:
            plan.mech = True
            return plan
        return self._guard_write(plan, t)

    # ---------------------------------------------------------------- read-only queries
    def _p_dense(self, ev):
        t = self.objs.get(ev.get('target'))
        how = ev.get('how')
        if t is None:
            return None
        A = self.img(t)
        name = ev['target']
        plan = Plan(None)
        plan.ref = A
        plan.dtype_strict = True
        plan.nonfinite = not _finite(A)
        if how == 'to_array':
            plan.run = lambda uni: uni[name].to_array()
        elif how == 'value':
            plan.run = lambda uni: uni[name].value
        elif how == 'astype_float':
            plan.ref = A.astype(float)
            plan.run = lambda uni: uni[name].astype(float)
        elif how in ('tolist', 'to_list'):
            plan.run = lambda uni: getattr(uni[name], how)()
            plan.check = lambda res: None if isinstance(res, list) else f'{how} returned {type(res).__name__}'
        elif how == 'to_flat_array':
            plan.ref = A.ravel()
            plan.dtype_strict = t.kind == 'v'     # SparseArray.to_flat_array fills a float buffer
            plan.run = lambda uni: uni[name].to_flat_array()
        elif how == 'to_flat_array_into':
            plan.ref = A.ravel()
            fill = 7 if A.dtype != bool else True

            holder = []

            def run(uni):
                arr = np.full(A.size, fill, dtype=A.dtype)
                holder[:] = [arr]
                return uni[name].to_flat_array(arr)
            plan.run = run
            plan.check = lambda res: None if res is holder[0] else 'to_flat_array(arr) did not return arr'
        elif how == 'asarray':
            plan.run = lambda uni: np.asarray(uni[name])
        elif how == 'iter':
            if t.kind == 'v':
                plan.run = lambda uni: [x for x in uni[name]]
            else:
                plan.run = lambda uni: [row.to_array() for row in uni[name]]
        elif how == 'len':
            plan.ref = None
            plan.run = lambda uni: len(uni[name])
            plan.check = lambda res: None if res == A.shape[0] else f'len() is {res}, NumPy {A.shape[0]}'
        elif how in ('shape', 'size', 'vector_size', 'ndim'):
            want = {'shape': A.shape, 'size': A.size, 'vector_size': A.shape[-1], 'ndim': A.ndim}[how]
            plan.ref = None
            plan.run = lambda uni: getattr(uni[name], how)
            plan.check = lambda res: None if res == want and type(res) is type(want) else (
                f'{how} is {res!r}, NumPy {want!r}')
        elif how == 'dtype':
            want = bool if A.dtype == bool else float
            plan.ref = None
            plan.run = lambda uni: uni[name].dtype
            plan.check = lambda res: None if res is want else f'dtype is {res!r}, expected {want!r}'
        elif how in ('float', 'bool', 'int'):
            if A.size != 1 or not _finite(A):
                return None
            cast = {'float': float, 'bool': bool, 'int': int}[how]
            want = cast(A.ravel()[0])
            plan.ref = None
            plan.run = lambda uni: cast(uni[name])
            plan.check = lambda res: None if res == want and type(res) is type(want) else (
                f'{how}() is {res!r}, NumPy {want!r}')
        elif how == 'str':
            want = str(A + 0.0 if A.dtype != bool else A)     # -0.0 is not representable sparsely
            plan.ref = None
            plan.run = lambda uni: str(uni[name])
            plan.check = lambda res: None if res == want else f'str() is {res!r}, NumPy {want!r}'
        else:
            return None
        return plan

    def _p_query(self, ev):
        t = self.objs.get(ev.get('target'))
        how = ev.get('how')
        if t is None:
            return None
        A = self.img(t)
        name = ev['target']
        isv = t.kind == 'v'
        boolean = A.dtype == bool
        plan = Plan(None)
        plan.cmp = 'none'
        nz = np.nonzero(A)

        def pairs(where):
            return sorted(zip(*[w.tolist() for w in where])) if not isv else sorted(where[0].tolist())

        def as_pairs(res):
            if not isinstance(res, tuple) or len(res) != A.ndim:
                raise TypeError(f'expected a {A.ndim}-tuple of index lists, got {res!r}')
            if isv:
                return sorted(int(i) for i in res[0])
            return sorted(zip(*[[int(i) for i in w] for w in res]))
        if how in ('nonzero_index', 'nonzero', 'positive_index', 'negative_index'):
            if how == 'negative_index' and isv and boolean:
                return None      # not exercised for logical vectors by the library's own tests
            where = {'nonzero_index': nz, 'nonzero': nz, 'positive_index': np.nonzero(A > 0),
                     'negative_index': np.nonzero(A < 0)}[how]
            want = pairs(where)
            plan.run = lambda uni: getattr(uni[name], how)()

            def check(res):
                try:
                    got = as_pairs(res)
                except Exception as e:
                    return f'{how}() unusable: {e}'
                if got != want:
                    return f'{how}() gives {got}, NumPy {want}'
                if how in ('nonzero_index', 'nonzero') and isv and not boolean and list(res[0]) != want:
                    return f'{how}() not sorted: {res[0]}'
            plan.check = check
        elif how in ('nonzero_keys', 'negative_keys'):
            if how == 'negative_keys' and isv and boolean:
                return None
            where = nz if how == 'nonzero_keys' else np.nonzero(A < 0)
            want = sorted(set(where[-1].tolist()))
            plan.run = lambda uni: getattr(uni[name], how)()

            def check(res):
                try:
                    got = sorted(int(i) for i in res)
                except Exception as e:
                    return f'{how}() unusable: {e}'
                if got != want:
                    return f'{how}() gives {got}, NumPy {want}'
            plan.check = check
        elif how == 'nonzero_values':
            want = sorted(A[nz].astype(float).tolist()) if _finite(A) else None
            plan.run = lambda uni: [x for x in uni[name].nonzero_values()]

            def check(res):
                if want is None:
                    return None
                got = sorted(float(x) for x in res)
                if got != want:
                    return f'nonzero_values() gives {got}, NumPy {want}'
            plan.check = check
        elif how in ('nonzero_items', 'nonzero_items_fn'):
            if not _finite(A):
                return None
            if isv:
                want = {int(i): float(A[i]) for i in nz[0]}
            else:
                want = {(int(i), int(j)): float(A[i, j]) for i, j in zip(*nz)}
            if how == 'nonzero_items':
                plan.run = lambda uni: [x for x in uni[name].nonzero_items()]
            else:
                plan.run = lambda uni: [x for x in nonzero_items(uni[name])]

            def check(res):
                got = {}
                for k, v in res:
                    k = int(k) if isv else (int(k[0]), int(k[1]))
                    if k in got:
                        return f'{how}: index {k} listed twice'
                    got[k] = float(v)
                if got != want:
                    return f'{how} gives {got}, NumPy {want}'
            plan.check = check
        elif how in ('nonzero_rows', 'negative_rows'):
            if isv:
                return None
            mask = (A != 0) if how == 'nonzero_rows' else (A < 0)
            want = [int(i) for i in np.nonzero(mask.any(axis=1))[0]]
            plan.run = lambda uni: getattr(uni[name], how)()
            plan.check = lambda res: None if [int(i) for i in res] == want else (
                f'{how}() gives {list(res)}, NumPy {want}')
        elif how == 'has_negatives':
            want = bool((A < 0).any())
            plan.run = lambda uni: uni[name].has_negatives()
            plan.check = lambda res: None if bool(res) == want else f'has_negatives() is {res}, NumPy {want}'
        else:
            return None
        return plan

    def _p_sum_of(self, ev):
        t = self.objs.get(ev.get('target'))
        index, axis = ev.get('index'), ev.get('axis')
        if t is None:
            return None
        A = self.img(t)
        n = A.shape[-1]
        if isinstance(index, list):
            if not index or not all(isinstance(i, int) and not isinstance(i, bool) and 0 <= i < n for i in index):
                return None
            if len(set(index)) != len(index):
                return None
        elif not (isinstance(index, int) and not isinstance(index, bool) and 0 <= index < n):
            return None
        name = ev['target']
        plan = Plan(None)
        if t.kind == 'v':
            if axis is not None:
                return None
            sub = A[index]
            plan.ref = sub.sum() if isinstance(index, list) else sub
            plan.scale = np.abs(sub).sum() * (np.size(sub) + 1)
            plan.run = lambda uni: uni[name].sum_of(list(index) if isinstance(index, list) else index)
        else:
            if axis not in (0, 1):
                return None
            sub = A[:, index]
            if axis == 0:
                plan.ref = sub.sum(axis=0)
                plan.scale = np.abs(sub).sum(axis=0) * (len(A) + 1)
            else:
                if not isinstance(index, list):
                    plan.ref = sub
                    plan.scale = np.abs(sub)
                else:
                    plan.ref = sub.sum(axis=1)
                    plan.scale = np.abs(sub).sum(axis=1) * (len(index) + 1)
            plan.run = lambda uni: uni[name].sum_of(list(index) if isinstance(index, list) else index, axis=axis)
        plan.cmp = 'tol'
        plan.nonfinite = not _finite(A)
        return plan

    def _p_sparse_equal(self, ev):
        t = self.objs.get(ev.get('target'))
        other = ev.get('other')
        if t is None or not self._operand_ok(other):
            return None
        A = self.img(t)
        B = np.asarray(self._operand_np(other))
        if B.shape != A.shape or (B.dtype == bool) != (A.dtype == bool) or B.dtype == object:
            return None
        if not (_finite(A) and _finite(B)):
            return None
        want = bool(np.array_equal(A, B))
        name = ev['target']
        plan = Plan(lambda uni: uni[name].sparse_equal(self._operand_real(other, uni)))
        plan.cmp = 'none'
        plan.check = lambda res: None if bool(res) == want else f'sparse_equal is {res}, NumPy array_equal {want}'
        return plan

    def _p_shares(self, ev):
        t = self.objs.get(ev.get('target'))
        o = self.objs.get(ev.get('other'))
        if t is None or o is None or (t.kind == 'v' and self.is_bool(t)):
            return None      # SparseLogicalVector has no shares_data_with
        want = bool(set(t.cells) & set(o.cells))
        name, oname = ev['target'], ev['other']
        plan = Plan(lambda uni: uni[name].shares_data_with(uni[oname]))
        plan.cmp = 'none'
        plan.mech = True
        plan.check = lambda res: None if bool(res) == want else (
            f'shares_data_with is {res}, alias map says {want}')
        return plan

    # ================================================================= generation
    def gen(self, rngs):
        r = rngs.args
        ops = self.cfg['ops']
        weights = [OP_WEIGHT.get(o, 1) for o in ops]
        for _ in range(60):
            op = rngs.sched.choices(ops, weights)[0]
            f7 = rngs.fault.random() < self.cfg.get('p_f7', 0.0)
            ev = getattr(self, '_c_' + op)(r, f7)
            if ev is None:
                continue
            with np.errstate(all='ignore'):
                plan = getattr(self, '_p_' + op)(ev)
            if plan is None:
                continue
            reg = self.in_region(ev, plan)
            if reg:
                self.stats['region:' + reg] += 1
                continue
            return ev
        return {'op': 'noop'}

    def in_region(self, ev, plan):
        for rid in sorted(self.regions):
            pred = REGIONS.get(rid)
            if pred is not None and pred(self, ev, plan):
                return rid
        return None

    # ---------------------------------------------------------------- random pieces
    def _names(self, pred=None):
        return [k for k in sorted(self.objs) if pred is None or pred(self.objs[k])]

    def _pick(self, r, pred=None, prefer_ro=False):
        names = self._names(pred)
        if not names:
            return None
        if prefer_ro:
            ro = [k for k in names if self.ro_state(self.objs[k]) == 'ro']
            if ro:
                return r.choice(ro)
        return r.choice(names)

    def _dst(self, r):
        if len(self.objs) < MAX_OBJS and r.random() < 0.75:
            k = 0
            while f'o{k}' in self.objs:
                k += 1
            return f'o{k}'
        return r.choice(sorted(self.objs))

    def _val(self, r, boolean=False, nonzero=False):
        return _rand_val(r, self.cfg['vals'], self.cfg['pz'], boolean, nonzero)

    def _nested(self, r, shape, boolean=False, nonzero=False):
        if not shape:
            return self._val(r, boolean, nonzero)
        return [self._nested(r, shape[1:], boolean, nonzero) for _ in range(shape[0])]

    def _array_spec(self, r, shape, boolean, nonzero, as_nd):
        v = self._nested(r, tuple(shape), boolean, nonzero)
        if as_nd:
            return {'k': 'nd', 'v': v, 'dt': 'b' if boolean else 'f'}
        return {'k': 'py', 'v': v}

    def _aliases_of(self, name):
        t = self.objs[name]
        cs = set(t.cells)
        return [k for k in sorted(self.objs) if cs & set(self.objs[k].cells)]

    def _rand_operand(self, r, tname, opr, nonzero=False, mismatch=False):
        t = self.objs[tname]
        tshape = self.shape(t)
        tbool = self.is_bool(t)
        n = tshape[-1]
        m = tshape[0] if len(tshape) == 2 else r.randint(1, 3)
        wide = n == 1 and not mismatch and r.random() < 0.5
        if wide:
            n = self.cfg['n']       # a length-1 target broadcasts against any length
        if opr in LOGICAL:
            boolean = True
        elif tbool:
            boolean = r.random() < 0.6
        else:
            boolean = r.random() < 0.1
        kind = r.choice(self.cfg['okinds'])
        if r.random() < self.cfg.get('p_self', 0.1):
            kind = 'self'
        if mismatch:
            if n < 2:
                return None
            if kind in ('scalar', 'bscalar', 'nd0', 'deep', 'self'):
                kind = r.choice(['list1', 'nd1', 'list2', 'nd2', 'ref'])
        if kind == 'scalar':
            return {'k': 'py', 'v': self._val(r, boolean, nonzero)}
        if kind == 'bscalar':
            return {'k': 'py', 'v': self._val(r, True, nonzero)}
        if kind == 'nd0':
            return {'k': 'nd', 'v': self._val(r, False, nonzero), 'dt': 'f'}
        if kind in ('list1', 'nd1'):
            L = n + 1 if mismatch else (1 if r.random() < 0.2 else n)
            return self._array_spec(r, (L,), boolean, nonzero, kind == 'nd1')
        if kind in ('list2', 'nd2'):
            mm = 1 if r.random() < 0.25 else m
            L = 1 if (r.random() < 0.15 and (mm == 1 or n == 1)) else n
            if mismatch:
                if len(tshape) == 2 and m >= 2 and r.random() < 0.5:
                    mm = m + 1
                else:
                    L = n + 1
            return self._array_spec(r, (mm, L), boolean, nonzero, kind == 'nd2')
        if kind == 'deep':
            shape = r.choice([(1, 1), (1, 1, 1), (1, 1, n), (1, n)])
            return self._array_spec(r, shape, boolean, nonzero, r.random() < 0.5)
        if kind == 'self':
            cands = self._aliases_of(tname)
            if nonzero:
                cands = [k for k in cands if not np.any(self.img(self.objs[k]) == 0)]
            if cands:
                return {'k': 'ref', 'name': r.choice(cands)}
            kind = 'ref'
        # 'ref': another live object
        cands = []
        for k in sorted(self.objs):
            o = self.objs[k]
            sh = self.shape(o)
            ok = sh[-1] in (n, 1) or tshape[-1] == 1
            if len(sh) == 2 and len(tshape) == 2 and sh[0] not in (tshape[0], 1):
                ok = False
            if mismatch:
                ok = sh[-1] not in (n, 1)
            if opr in LOGICAL and not self.is_bool(o):
                ok = False
            if nonzero and np.any(self.img(o) == 0):
                ok = False
            if ok:
                cands.append(k)
        if cands:
            return {'k': 'ref', 'name': r.choice(cands)}
        if mismatch:
            return self._array_spec(r, (n + 1,), boolean, nonzero, False)
        return {'k': 'py', 'v': self._val(r, boolean, nonzero)}

    def _rand_index1(self, r, n, allow=('int', 'slice', 'full', 'list', 'nd', 'mask', 'ndmask')):
        t = r.choice(allow)
        if t == 'int':
            return {'t': 'int', 'i': r.randrange(n)}
        if t == 'full':
            return {'t': 'slice', 'a': None, 'b': None, 's': None}
        if t == 'slice':
            a = r.randint(0, n - 1)
            b = r.randint(a, n)
            return {'t': 'slice', 'a': None if r.random() < 0.3 else a, 'b': None if r.random() < 0.3 else b,
                    's': r.choice([None, None, 1, 2])}
        if t in ('list', 'nd'):
            k = r.randint(1, min(n, 3))
            v = [r.randrange(n) for _ in range(k)] if r.random() < 0.3 else r.sample(range(n), k)
            return {'t': t, 'v': v}
        v = [r.random() < 0.5 for _ in range(n)]
        return {'t': 'mask', 'v': v, 'nd': t == 'ndmask'}

    def _rand_index(self, r, tname):
        t = self.objs[tname]
        shape = self.shape(t)
        smasks = [k for k in sorted(self.objs)
                  if self.is_bool(self.objs[k]) and self.shape(self.objs[k]) == shape]
        if smasks and r.random() < 0.1:
            return {'t': 'smask', 'name': r.choice(smasks)}
        if len(shape) == 1:
            ix = self._rand_index1(r, shape[0])
            if r.random() < 0.12 and ix['t'] in ('int', 'list', 'slice'):
                return {'t': 'tuple', 'e': [ix]}
            return ix
        m, n = shape
        u = r.random()
        if u < 0.35:
            return self._rand_index1(r, m)
        if u < 0.42:
            return {'t': 'mask2', 'v': [[r.random() < 0.5 for _ in range(n)] for _ in range(m)]}
        e0 = self._rand_index1(r, m, ('int', 'int', 'slice', 'full', 'full', 'list', 'nd', 'mask', 'ndmask'))
        e1 = self._rand_index1(r, n, ('int', 'int', 'slice', 'full', 'list', 'nd', 'mask'))
        adv0, adv1 = e0['t'] in ('list', 'nd', 'mask'), e1['t'] in ('list', 'nd', 'mask')
        if adv0 and adv1:
            if e0['t'] == 'mask' or e1['t'] == 'mask':
                e1 = self._rand_index1(r, n, ('int', 'slice', 'full'))
            else:
                k = min(len(e0['v']), len(e1['v']))
                e0 = dict(e0, v=e0['v'][:k])
                e1 = dict(e1, v=e1['v'][:k])
        return {'t': 'tuple', 'e': [e0, e1]}

    # ---------------------------------------------------------------- candidates
    def _c_new(self, r, f7):
        cfg = self.cfg
        kind = r.choice(cfg['kinds'])
        boolean = kind in ('lv', 'sab')
        n = 1 if r.random() < 0.12 else cfg['n']
        m = 1 if r.random() < 0.2 else cfg['m']
        ev = {'op': 'new', 'dst': self._dst(r)}
        if kind in ('sv', 'lv'):
            how = r.choice(['sparse', 'sparse_vector', 'SparseVector', 'SparseLogicalVector', 'dict',
                            'from_dict', 'from_set', 'from_size', 'lfrom_size', 'size_only', 'lsize_only'])
            if how in ('sparse', 'sparse_vector', 'SparseVector', 'SparseLogicalVector'):
                if how == 'SparseVector':
                    boolean = r.random() < 0.2
                elif how == 'SparseLogicalVector':
                    boolean = r.random() < 0.8
                ev.update(how=how, data=_rand_data(r, 'lv' if boolean else 'sv', 1, n, cfg['vals'], cfg['pz']),
                          as_nd=r.random() < 0.4)
                if how in ('SparseVector', 'SparseLogicalVector') and r.random() < 0.3:
                    ev['size'] = n + r.randint(0, 2)
            elif how in ('dict', 'from_dict', 'from_set'):
                keys = r.sample(range(n), r.randint(0, n))
                nz = how != 'dict'
                ev.update(how=how, size=n,
                          data=[[k, self._val(r, how == 'from_set', nz)] for k in keys])
            else:
                ev.update(how=how, size=n)
        else:
            how = r.choice(['sparse', 'sparse', 'sparse_array', 'SparseArray', 'sparse_dicts', 'from_shape'])
            if how == 'sparse_dicts':
                ev.update(how=how, size=n, data=[[[k, self._val(r)] for k in r.sample(range(n), r.randint(0, n))]
                                                 for _ in range(m)])
            elif how == 'from_shape':
                ev.update(how=how, size=[m, n])
            else:
                ev.update(how=how, data=_rand_data(r, kind, m, n, cfg['vals'], cfg['pz']),
                          as_nd=r.random() < 0.4)
        return ev

    def _c_conv(self, r, f7):
        src = self._pick(r)
        isv = self.objs[src].kind == 'v'
        hows = ['copy', 'sparse', 'abs', 'neg', 'invert', 'getself']
        hows += (['sparse_vector', 'sparse_vector_copy', 'SparseVector', 'SparseLogicalVector'] if isv else
                 ['sparse_array', 'sparse_array_copy', 'SparseArray', 'getself2'])
        return {'op': 'conv', 'src': src, 'dst': self._dst(r), 'how': r.choice(hows)}

    def _c_rows(self, r, f7):
        first = self._pick(r, lambda o: o.kind == 'v')
        if first is None:
            return None
        o0 = self.objs[first]
        sh, b = self.shape(o0), self.is_bool(o0)
        pool = self._names(lambda o: o.kind == 'v' and self.shape(o) == sh and self.is_bool(o) == b)
        r.shuffle(pool)
        srcs, seen = [], set()
        for k in pool:
            c = self.objs[k].cells[0]
            if c not in seen:
                seen.add(c)
                srcs.append(k)
        srcs = srcs[:r.randint(1, 3)]
        return {'op': 'rows', 'srcs': srcs, 'dst': self._dst(r),
                'how': r.choice(['from_rows', 'from_rows', 'SparseArray', 'sparse_array', 'sparse'])}

    def _c_row(self, r, f7):
        src = self._pick(r, lambda o: o.kind == 'a')
        if src is None:
            return None
        m = len(self.objs[src].cells)
        how = r.choice(['int', 'int', 'tuple', 'iter', 'list', 'nd', 'tlist', 'mask', 'ndmask', 'tmask', 'slice'])
        if how in ('int', 'tuple', 'iter'):
            i = r.randrange(m)
        elif how in ('list', 'nd', 'tlist'):
            i = r.sample(range(m), r.randint(1, m))
        elif how in ('mask', 'ndmask', 'tmask'):
            i = [r.random() < 0.6 for _ in range(m)]
        else:
            a = r.randint(0, m - 1)
            i = [r.choice([None, a]), r.choice([None, r.randint(a + 1, m)]), r.choice([None, 1, 2])]
        return {'op': 'row', 'src': src, 'dst': self._dst(r), 'how': how, 'i': i}

    def _c_drop(self, r, f7):
        if len(self.objs) < 5:
            return None
        return {'op': 'drop', 'target': self._pick(r)}

    def _c_get(self, r, f7):
        t = self._pick(r)
        return {'op': 'get', 'target': t, 'index': self._rand_index(r, t)}

    def _c_set(self, r, f7):
        t = self._pick(r, prefer_ro=r.random() < 0.3)
        o = self.objs[t]
        index = self._rand_index(r, t)
        ni = self._index(index, self.shape(o), True)
        if ni is None:
            return None
        try:
            sh = np.asarray(self.img(o)[ni]).shape
        except (IndexError, ValueError):
            return None
        boolean = (r.random() < 0.7) if self.is_bool(o) else (r.random() < 0.08)
        u = r.random()
        if f7 and sh and sh[-1] >= 2:
            value = self._array_spec(r, (sh[-1] + 1,), boolean, False, r.random() < 0.5)
        elif u < 0.45 or not sh:
            value = {'k': 'py', 'v': self._val(r, boolean)}
            if r.random() < 0.1:
                value = self._array_spec(r, r.choice([(1,), (1, 1)]), boolean, False, r.random() < 0.5)
        elif u < 0.75:
            value = self._array_spec(r, sh, boolean, False, r.random() < 0.5)
        elif u < 0.82:
            value = self._array_spec(r, (1,) + tuple(sh), boolean, False, r.random() < 0.5)
        elif u < 0.88 and len(sh) == 2:
            value = self._array_spec(r, sh[1:], boolean, False, r.random() < 0.5)
        else:
            cands = [k for k in sorted(self.objs) if self.shape(self.objs[k]) == tuple(sh)]
            if not cands:
                value = {'k': 'py', 'v': self._val(r, boolean)}
            else:
                mine = [k for k in cands if k in self._aliases_of(t)]
                value = {'k': 'ref', 'name': r.choice(mine if mine and r.random() < 0.4 else cands)}
        return {'op': 'set', 'target': t, 'index': index, 'value': value}

    def _c_binop(self, r, f7):
        t = self._pick(r)
        tb = self.is_bool(self.objs[t])
        opr = r.choice(ARITH + COMPARE + LOGICAL if tb else ARITH + ARITH + COMPARE)
        other = self._rand_operand(r, t, opr, nonzero=(opr == 'truediv'), mismatch=f7)
        if other is None:
            return None
        ev = {'op': 'binop', 'target': t, 'opr': opr, 'other': other}
        if other['k'] != 'ref' and r.random() < 0.25:
            ev['refl'] = True
            if opr == 'truediv' and np.any(self.img(self.objs[t]) == 0):
                ev['refl'] = False
        if r.random() < 0.4:
            ev['dst'] = self._dst(r)
        return ev

    def _c_iop(self, r, f7):
        t = self._pick(r, prefer_ro=r.random() < 0.3)
        tb = self.is_bool(self.objs[t])
        opr = r.choice(['iadd', 'imul', 'iand', 'ior', 'ixor', 'iand', 'ior', 'ixor'] if tb
                       else ['iadd', 'isub', 'imul', 'itruediv'])
        other = self._rand_operand(r, t, opr[1:], nonzero=(opr == 'itruediv'), mismatch=f7)
        if other is None:
            return None
        return {'op': 'iop', 'target': t, 'opr': opr, 'other': other,
                'form': 'slice' if r.random() < 0.15 else 'plain'}

    def _c_reduce(self, r, f7):
        t = self._pick(r)
        nd = len(self.shape(self.objs[t]))
        ev = {'op': 'reduce', 'target': t, 'fn': r.choice(REDUCTIONS),
              'axis': r.choice([None] + list(range(nd))), 'keepdims': r.random() < 0.4,
              'style': r.choice(['kw', 'kw', 'pos', 'default'])}
        if r.random() < 0.25:
            ev['dst'] = self._dst(r)
        return ev

    def _c_clear(self, r, f7):
        t = self._pick(r, lambda o: not (o.kind == 'v' and self.is_bool(o)), prefer_ro=r.random() < 0.3)
        return None if t is None else {'op': 'clear', 'target': t}

    def _c_setflags(self, r, f7):
        t = self._pick(r, lambda o: not self.is_bool(o))
        return None if t is None else {'op': 'setflags', 'target': t}

    def _c_remove_negatives(self, r, f7):
        return {'op': 'remove_negatives', 'target': self._pick(r, prefer_ro=r.random() < 0.3)}

    def _c_mix_from(self, r, f7):
        t = self._pick(r, lambda o: o.kind == 'v' and not self.is_bool(o), prefer_ro=r.random() < 0.2)
        if t is None:
            return None
        sh = self.shape(self.objs[t])
        pool = self._names(lambda o: o.kind == 'v' and not self.is_bool(o) and self.shape(o) == sh)
        others = [r.choice(pool) for _ in range(r.randint(0, 4))]
        if others and r.random() < 0.5:
            others[r.randrange(len(others))] = t
            if r.random() < 0.5:
                vec_aliases = [k for k in self._aliases_of(t) if self.objs[k].kind == 'v']
                others.insert(r.randint(0, len(others)), r.choice(vec_aliases))
        return {'op': 'mix_from', 'target': t, 'others': others[:4]}

    def _c_copy_like(self, r, f7):
        t = self._pick(r, lambda o: not self.is_bool(o), prefer_ro=r.random() < 0.2)
        if t is None:
            return None
        o = self.objs[t]
        pool = self._names(lambda x: x.kind == o.kind and self.shape(x) == self.shape(o))
        return {'op': 'copy_like', 'target': t, 'other': r.choice(pool)}

    def _c_dense(self, r, f7):
        t = self._pick(r)
        hows = ['to_array', 'value', 'astype_float', 'tolist', 'to_list', 'to_flat_array',
                'to_flat_array_into', 'asarray', 'iter', 'len', 'shape', 'size', 'vector_size', 'ndim',
                'dtype', 'str']
        if int(np.prod(self.shape(self.objs[t]))) == 1:
            hows += ['float', 'bool', 'int'] * 3
        return {'op': 'dense', 'target': t, 'how': r.choice(hows)}

    def _c_from_flat(self, r, f7):
        t = self._pick(r, prefer_ro=r.random() < 0.3)
        o = self.objs[t]
        size = int(np.prod(self.shape(o)))
        boolean = self.is_bool(o) and r.random() < 0.8
        return {'op': 'from_flat', 'target': t, 'data': [self._val(r, boolean) for _ in range(size)],
                'as_nd': r.random() < 0.7}

    def _c_query(self, r, f7):
        t = self._pick(r)
        hows = ['nonzero_index', 'nonzero', 'positive_index', 'negative_index', 'nonzero_keys',
                'negative_keys', 'nonzero_values', 'nonzero_items', 'nonzero_items_fn', 'has_negatives']
        if self.objs[t].kind == 'a':
            hows += ['nonzero_rows', 'negative_rows']
        return {'op': 'query', 'target': t, 'how': r.choice(hows)}

    def _c_sum_of(self, r, f7):
        t = self._pick(r)
        o = self.objs[t]
        n = self.shape(o)[-1]
        index = r.randrange(n) if r.random() < 0.4 else r.sample(range(n), r.randint(1, n))
        return {'op': 'sum_of', 'target': t, 'index': index,
                'axis': None if o.kind == 'v' else r.choice([0, 1])}

    def _c_sparse_equal(self, r, f7):
        t = self._pick(r)
        o = self.objs[t]
        A = self.img(o)
        u = r.random()
        if u < 0.4:          # equal content in another container
            other = {'k': 'nd' if r.random() < 0.5 else 'py', 'v': _plain(A)}
            if other['k'] == 'nd':
                other['dt'] = 'b' if A.dtype == bool else 'f'
        elif u < 0.7:
            other = self._array_spec(r, A.shape, A.dtype == bool, False, r.random() < 0.5)
        else:
            pool = self._names(lambda x: self.shape(x) == self.shape(o) and self.is_bool(x) == self.is_bool(o))
            other = {'k': 'ref', 'name': r.choice(pool)}
        return {'op': 'sparse_equal', 'target': t, 'other': other}

    def _c_shares(self, r, f7):
        t = self._pick(r, lambda o: not (o.kind == 'v' and self.is_bool(o)))
        return None if t is None else {'op': 'shares', 'target': t, 'other': self._pick(r)}


# ---------------------------------------------------------------------- module helpers
def _deep_list(v):
    if isinstance(v, list):
        return [_deep_list(x) for x in v]
    return v


def _plain(a):
    a = np.asarray(a)
    if a.dtype == bool:
        return a.tolist()
    return [float(x) for x in a] if a.ndim == 1 else [[float(x) for x in row] for row in a]


def _same(a, b):
    a, b = np.asarray(a), np.asarray(b)
    if a.shape != b.shape:
        return False
    if a.dtype.kind == 'f' or b.dtype.kind == 'f':
        with np.errstate(all='ignore'):
            return bool(np.array_equal(a.astype(float), b.astype(float), equal_nan=True))
    return bool(np.array_equal(a, b))


def _obs(res):
    if res is None:
        return 'ok'
    if _is_sparse(res) or isinstance(res, np.ndarray):
        return _jsonable(_dense(res))[:40]
    if isinstance(res, (bool, int, float, np.generic, str)):
        return repr(res)
    return type(res).__name__


def simplify_event(ev):
    out = []
    if ev.get('dst') is not None and ev.get('op') in ('binop', 'reduce'):
        e = dict(ev)
        e.pop('dst')
        out.append(e)
    if ev.get('form') == 'slice':
        out.append(dict(ev, form='plain'))
    if ev.get('refl'):
        out.append(dict(ev, refl=False))
    if ev.get('style') in ('pos', 'default'):
        out.append(dict(ev, style='kw'))
    for key in ('other', 'value'):
        spec = ev.get(key)
        if isinstance(spec, dict) and spec.get('k') == 'nd' and isinstance(spec.get('v'), list):
            out.append(dict(ev, **{key: {'k': 'py', 'v': spec['v']}}))
    if ev.get('as_nd'):
        out.append(dict(ev, as_nd=False))
    return out


# ---------------------------------------------------------------------- known-finding regions
REGIONS = {}
# Each predicate(world, event, plan) describes exactly when one listed defect of the unchanged
# library can fire; with the id in cfg['regions'] the generator does not emit such events.


def _row_pairs(tc, oc):
    """(target cell, operand cell) in the order the library walks the rows."""
    if len(oc) == 1:
        return [(c, oc[0]) for c in tc]
    return list(zip(tc, oc))


def _r_isub_self(w, ev, plan):
    # a -= a (operand row IS the target row): `del dct[i]` while iterating other_dct.items()
    if ev.get('op') != 'iop' or ev.get('opr') != 'isub':
        return False
    t = w.objs[ev['target']]
    oc = w._operand_cells(ev['other'])
    if not oc or w.is_bool(t):
        return False
    return any(a == b and bool(np.any(w.cells[a] != 0)) for a, b in _row_pairs(t.cells, oc))


def _r_overlap_order(w, ev, plan):
    # in-place operator / copy_like whose operand shares a row with the target: the rows are
    # processed one after the other, so the shared row is read after it was already updated
    op = ev.get('op')
    if op not in ('iop', 'copy_like'):
        return False
    t = w.objs[ev['target']]
    spec = ev.get('other') if op == 'iop' else {'k': 'ref', 'name': ev.get('other')}
    oc = w._operand_cells(spec)
    if not oc or not (set(oc) & set(t.cells)):
        return False
    seen = set()
    for a, b in _row_pairs(t.cells, oc):
        if b in seen:
            return True
        if op == 'iop' or a != b:
            seen.add(a)
    return False


def _r_readonly_bypass(w, ev, plan):
    # write paths that never look at read_only
    if plan.expect != 'reject' or plan.why != 'readonly-write':
        return False
    op = ev.get('op')
    kind = w.objs[ev['target']].kind
    if op in ('copy_like', 'remove_negatives'):
        return True
    if kind == 'v':
        return op == 'mix_from'
    if op in ('iop', 'clear', 'from_flat'):
        return True
    if op == 'set':
        ix = ev['index']
        if ix.get('t') in ('mask2', 'smask'):
            return True
        return (ix.get('t') == 'tuple' and len(ix['e']) == 2 and ix['e'][0].get('t') in ('list', 'nd')
                and ix['e'][1].get('t') in ('int', 'list', 'nd'))
    return False


def _r_zip_rows(w, ev, plan):
    # 2-d operand with another number of rows: zip() without strict stops at the shorter one
    if plan.expect != 'reject' or plan.why != 'shape-mismatch' or ev.get('op') not in ('binop', 'iop'):
        return False
    t = w.objs[ev['target']]
    if t.kind != 'a':
        return False
    A = w.img(t)
    B = _strip(np.asarray(w._operand_np(ev['other'])))
    if B.ndim != 2 or B.shape[0] == A.shape[0] or A.shape[0] < 2:
        return False
    return B.shape[1] == A.shape[1] or B.shape[1] == 1 or A.shape[1] == 1


def _r_set_length(w, ev, plan):
    # assignment of a value whose length differs from the selection ("size is not strict")
    return ev.get('op') == 'set' and plan.expect == 'reject' and plan.why == 'shape-mismatch'


def _r_underflow(w, ev, plan):
    # products / quotients that underflow to 0.0 are stored
    op = ev.get('op')
    opr = ev.get('opr', '')
    if op not in ('binop', 'iop') or opr.lstrip('i') not in ('mul', 'truediv') or plan.ref is None:
        return False
    if opr.startswith('i') and opr not in BINOPS:
        opr = opr[1:]
    t = w.objs[ev['target']]
    A = w.img(t).astype(float)
    B = np.asarray(w._operand_np(ev['other'])).astype(float)
    ref = np.asarray(plan.ref).astype(float)
    try:
        if opr == 'mul':
            exact_nonzero = (A != 0) & (B != 0)
        else:
            num = B if ev.get('refl') else A
            exact_nonzero = np.broadcast_to(num != 0, np.broadcast(A, B).shape)
        return bool(np.any(exact_nonzero & (ref.reshape(exact_nonzero.shape) == 0)))
    except ValueError:
        return False


def _r_minmax_keepdims_zero(w, ev, plan):
    # SparseArray.max/min(axis=None, keepdims=True) stores its value unconditionally
    if ev.get('op') != 'reduce' or ev.get('fn') not in ('max', 'min') or not ev.get('keepdims'):
        return False
    t = w.objs[ev['target']]
    return t.kind == 'a' and ev.get('axis') is None and plan.ref is not None and not np.any(plan.ref)


def _r_anyall_keepdims_dict(w, ev, plan):
    # SparseArray.any/all(axis=1, keepdims=True): rows that are False get `{}` (a dict) as their set
    if ev.get('op') != 'reduce' or ev.get('fn') not in ('any', 'all') or not ev.get('keepdims'):
        return False
    t = w.objs[ev['target']]
    return t.kind == 'a' and ev.get('axis') == 1 and plan.ref is not None and not np.all(plan.ref)


def _r_rowmask_set_value(w, ev, plan):
    # sa[row_mask] = array: the value is indexed with the ROW number instead of a running count
    if ev.get('op') != 'set':
        return False
    t = w.objs[ev['target']]
    if t.kind != 'a':
        return False
    ix = ev['index']
    V = _strip(np.asarray(w._operand_np(ev['value'])))
    if ix.get('t') == 'tuple':
        # sa[row_mask, a:b] = 2-d value: the booleans themselves are used as row numbers
        return ix['e'][0].get('t') == 'mask' and ix['e'][1].get('t') == 'slice' and V.ndim == 2
    if ix.get('t') != 'mask' or V.ndim == 0:
        return False
    mask = ev['index']['v']
    k = sum(mask)
    prefix = all(mask[:k])
    return not (V.ndim == 2 and prefix)


def _full(e):
    return e.get('t') == 'slice' and e.get('a') is None and e.get('b') is None and e.get('s') is None


def _r_vector_iop_2d(w, ev, plan):
    # v op= 2-d operand with len(operand) == v.size: the operand's ROWS are taken as its elements
    if ev.get('op') != 'iop':
        return False
    t = w.objs[ev['target']]
    if t.kind != 'v':
        return False
    B = _strip(np.asarray(w._operand_np(ev['other'])))
    return B.ndim == 2 and B.shape[0] == w.shape(t)[0]


def _r_clear_before_reject(w, ev, plan):
    # row[:] = <2-d value>: the row is emptied BEFORE IndexError('cannot broadcast') is raised
    if ev.get('op') != 'set':
        return False
    t = w.objs[ev['target']]
    V = _strip(np.asarray(w._operand_np(ev['value'])))
    if V.ndim != 2:
        return False
    ix = ev['index']
    if t.kind == 'v':
        return _full(ix) or (ix.get('t') == 'tuple' and _full(ix['e'][0]))
    return (ix.get('t') == 'tuple' and ix['e'][0].get('t') == 'slice' and not _full(ix['e'][0])
            and _full(ix['e'][1]))


def _r_logical_mask_order(w, ev, plan):
    # x[<sparse logical mask>]: the selected positions come in the mask's SET iteration order
    # (SparseLogicalVector.nonzero_index does not sort), which is history dependent
    if ev.get('op') not in ('get', 'set') or ev['index'].get('t') != 'smask':
        return False
    if ev['op'] == 'set' and np.ndim(_strip(np.asarray(w._operand_np(ev['value'])))) == 0:
        return False
    mask = w.objs[ev['index']['name']].real
    rows = mask.rows if mask.__class__ is SparseArray else [mask]
    return any([*row.set] != sorted(row.set) for row in rows)


def _r_min_logical_bool(w, ev, plan):
    # min() of logical data returns a Python bool; the sparse results built from it are FLOAT
    # vectors holding True, which NumPy (iterating the object) reads back as a bool array
    if ev.get('op') != 'reduce' or ev.get('fn') != 'min' or plan.ref is None or not np.any(plan.ref):
        return False
    t = w.objs[ev['target']]
    if not w.is_bool(t):
        return False
    if t.kind == 'v':
        return bool(ev.get('keepdims'))
    return ev.get('axis') == 1 or (ev.get('axis') is None and bool(ev.get('keepdims')))


def _r_truediv_shares_dict(w, ev, plan):
    # SparseVector._truediv_sparse, branch size == 1 < other.size with self == [0.]: `new = dct`,
    # the result (size other.size) shares its dict with the length-1 operand
    if ev.get('op') != 'binop' or ev.get('opr') != 'truediv' or ev.get('refl'):
        return False
    t = w.objs[ev['target']]
    oc = w._operand_cells(ev['other'])
    if not oc or w.is_bool(t) or w.shape(t)[-1] != 1 or len(w.cells[oc[0]]) < 2:
        return False
    return any(not w.cells[c][0] for c in t.cells)


REGIONS.update({
    'C09-truediv-shares-dict': _r_truediv_shares_dict,
    'C09-min-logical-bool': _r_min_logical_bool,
    'C09-logical-mask-order': _r_logical_mask_order,
    'C09-vector-iop-2d': _r_vector_iop_2d,
    'C09-clear-before-reject': _r_clear_before_reject,
    'C09-isub-self': _r_isub_self,
    'C09-overlap-order': _r_overlap_order,
    'C09-readonly-bypass': _r_readonly_bypass,
    'C09-zip-rows': _r_zip_rows,
    'C09-set-length': _r_set_length,
    'C09-underflow-stored-zero': _r_underflow,
    'C09-minmax-keepdims-zero': _r_minmax_keepdims_zero,
    'C09-anyall-keepdims-dict': _r_anyall_keepdims_dict,
    'C09-rowmask-set-value': _r_rowmask_set_value,
})
