"""rxnsim: reactor tasks applying reused, edited reaction objects to shared streams (C05).

Mechanism under simulation (DESIGN 5/C05): a reaction applied to a stream of another property
package re-bases the stream's indexer and restores it afterwards with the feasibility check in
between; on a weight basis the result is written back through the cached mass *view*; reaction
objects are mutable and reused (basis toggled in place, X assigned, items of reaction sets share
their parent's arrays).  The algebra itself is checked by dense arithmetic written here, with the
harness' own atom table.
"""
import warnings
from fractions import Fraction

import numpy as np

from sim import env
from sim.kernel import BaseWorld, Violation

env.import_thermosteam()
import thermosteam as tmo  # noqa: E402
from thermosteam.exceptions import InfeasibleRegion  # noqa: E402
from sim import faults  # noqa: E402
from engines.streamsim import restart_copy  # noqa: E402  (pickled restart with package identity kept)

warnings.filterwarnings('ignore')
NAME = 'rxnsim'

IDS = ['Water', 'Ethanol', 'Methanol', 'Glycerol', 'CO2', 'O2', 'Glucose', 'Octane', 'AceticAcid']
ATOMS = {  # harness' own table (C, H, O)
    'Water': (0, 2, 1), 'Ethanol': (2, 6, 1), 'Methanol': (1, 4, 1), 'Glycerol': (3, 8, 3), 'CO2': (1, 0, 2),
    'O2': (0, 0, 2), 'Glucose': (6, 12, 6), 'Octane': (8, 18, 0), 'AceticAcid': (2, 4, 2),
}
BASE_REACTIONS = [
    {'Glucose': -1, 'Ethanol': 2, 'CO2': 2},
    {'Glucose': -1, 'O2': -6, 'CO2': 6, 'Water': 6},
    {'Ethanol': -1, 'O2': -3, 'CO2': 2, 'Water': 3},
    {'Methanol': -1, 'O2': -1.5, 'CO2': 1, 'Water': 2},
    {'Methanol': -2, 'Ethanol': 1, 'Water': 1},
    {'Octane': -1, 'O2': -12.5, 'CO2': 8, 'Water': 9},
    {'Glycerol': -1, 'O2': -3.5, 'CO2': 3, 'Water': 4},
    {'Ethanol': -1, 'O2': -1, 'AceticAcid': 1, 'Water': 1},
    {'Glucose': -1, 'AceticAcid': 3},
    {'AceticAcid': -1, 'O2': -2, 'CO2': 2, 'Water': 2},
]
PHASE_OF = {'Water': 'l', 'Ethanol': 'l', 'Methanol': 'l', 'Glycerol': 'l', 'CO2': 'g', 'O2': 'g', 'Glucose': 's',
            'Octane': 'l', 'AceticAcid': 'l'}
TAG_PHASES = ('g', 'l', 's')
FLOWS = [0.0, 0.0, 0.5, 1.0, 2.0, 3.0, 10.0, 0.125, 100.0]
_pk = {}


class Pkg:
    def __init__(self, pid):
        ids = IDS if pid == 'R' else list(reversed(IDS))
        chems = [_chem(i) for i in ids]
        self.pid = pid
        self.ids = ids
        self.n = len(ids)
        self.thermo = tmo.Thermo(tmo.Chemicals(chems))
        faults.wrap_mixture(self.thermo.mixture)
        self.pos = {c: k for k, c in enumerate(ids)}
        self.MW = np.array([_chem(i).MW for i in ids])
        self.atoms = np.array([ATOMS[i] for i in ids], dtype=float).T   # 3 x n


def _chem(cid):
    k = ('c', cid)
    if k not in _pk:
        _pk[k] = tmo.Chemical(cid)
    return _pk[k]


def pkg(pid):
    if pid not in _pk:
        _pk[pid] = Pkg(pid)
    return _pk[pid]


def make_cfg(rng, prop, tier):
    lo, hi = tier.get('steps', (15, 40))
    streams = []
    for i in range(rng.randint(2, 5)):
        kind = rng.choice(['single', 'single', 'multi'])
        pid = rng.choice(['R', 'R', 'Rr'])
        spec = {'name': f's{i}', 'pkg': pid, 'kind': kind, 'T': rng.choice([298.15, 320.0, 350.0])}
        if kind == 'single':
            spec['phase'] = rng.choice(['l', 'l', 'g', 's'])
            spec['flows'] = [rng.choice(FLOWS) for _ in IDS]
        else:
            spec['flows'] = {}
            for ph in TAG_PHASES:
                spec['flows'][ph] = [rng.choice(FLOWS) if PHASE_OF[c] == ph or rng.random() < 0.15 else 0.0
                                     for c in pkg_ids(pid)]
        streams.append(spec)
    return {'world': 'rxn', 'steps': rng.randint(lo, hi), 'streams': streams,
            'faults': rng.random() < 0.3, 'regions': list(tier.get('regions', [])), 'step_timeout': 20.0}


def pkg_ids(pid):
    return IDS if pid == 'R' else list(reversed(IDS))


def World(prop, cfg):
    return RxnWorld(prop, cfg)


def close(a, b, rtol=1e-9, atol=1e-12):
    a = np.asarray(a, float)
    b = np.asarray(b, float)
    return a.shape == b.shape and bool(np.all(np.abs(a - b) <= atol + rtol * np.maximum(np.abs(a), np.abs(b))))


class RxnWorld(BaseWorld):

    def __init__(self, prop, cfg):
        super().__init__(prop, cfg)
        from sim import universe
        universe.reset_globals()
        self.regions = set(cfg.get('regions', []))
        self.streams = {}
        self.pkg_of = {}
        self.rxns = {}       # name -> (object, spec)
        self.n = 0
        for spec in cfg['streams']:
            pk = pkg(spec['pkg'])
            if spec['kind'] == 'single':
                s = tmo.Stream(None, flow=np.array(spec['flows'], float), phase=spec['phase'], T=spec['T'],
                               thermo=pk.thermo)
            else:
                s = tmo.MultiStream(None, phases=TAG_PHASES, T=spec['T'], thermo=pk.thermo)
                for ph in TAG_PHASES:
                    s.imol[ph] = np.array(spec['flows'][ph], float)
            self.streams[spec['name']] = s
            self.pkg_of[spec['name']] = spec['pkg']

    # ------------------------------------------------------------ helpers
    def rows(self, name):
        s = self.streams[name]
        if isinstance(s, tmo.MultiStream):
            return {ph: np.array(s.imol.data.rows[i].to_array(), float) for i, ph in enumerate(s.phases)}
        return {s.phase: np.array(s.imol.data.to_array(), float)}

    def new_name(self, p):
        self.n += 1
        return f'{p}{self.n}'

    # ------------------------------------------------------------ generation
    def gen_stoich(self, r):
        """a balanced stoichiometry (dict ID -> coefficient) with a chosen reactant"""
        a = dict(r.choice(BASE_REACTIONS))
        if r.random() < 0.4:
            b = r.choice(BASE_REACTIONS)
            wa, wb = r.choice([(1, 1), (0.5, 0.5), (0.25, 0.75), (2, 1), (1, 0.5)])
            out = {}
            for k in set(a) | set(b):
                v = wa * a.get(k, 0) + wb * b.get(k, 0)
                if abs(v) > 1e-12:
                    out[k] = v
            a = out
        negs = sorted(k for k, v in a.items() if v < 0)
        if not negs:
            return None
        reactant = r.choice(negs)
        return a, reactant

    def gen_rxn_spec(self, r, tagged=False, reactant=None):
        for _ in range(20):
            g = self.gen_stoich(r)
            if g is None:
                continue
            st, re_ = g
            if reactant and (reactant not in st or st[reactant] >= 0):
                continue
            re_ = reactant or re_
            spec = {'stoich': {k: float(v) for k, v in sorted(st.items())}, 'reactant': re_,
                    'X': r.choice([0.0, 0.25, 0.5, 0.9, 1.0, 0.1])}
            if tagged:
                spec['phases'] = {k: PHASE_OF[k] for k in st}
            return spec
        return None

    def gen(self, rngs):
        r = rngs.args
        ops = ['new_rxn', 'react', 'react', 'react', 'react', 'edit_rxn', 'warm', 'set_flows', 'restart', 'proxy',
               'react_array', 'over_conversion', 'derive_rxn', 'stoich_feed', 'stoich_feed', 'member_basis']
        for _ in range(30):
            op = rngs.sched.choice(ops)
            ev = None
            if op == 'new_rxn':
                if len(self.rxns) >= 5:
                    continue
                kind = r.choice(['single', 'single', 'parallel', 'series', 'system'])
                tagged = r.random() < 0.3
                k = 1 if kind == 'single' else r.randint(2, 4 if kind != 'system' else 3)
                members = []
                first = None
                for i in range(k):
                    sp = self.gen_rxn_spec(r, tagged)
                    if sp is None:
                        break
                    members.append(sp)
                if len(members) != k:
                    continue
                if kind == 'parallel':   # keep the total conversion of a shared reactant feasible most of the time
                    tot = {}
                    for m in members:
                        tot[m['reactant']] = tot.get(m['reactant'], 0) + m['X']
                    if any(v > 1 for v in tot.values()) and r.random() < 0.8:
                        for m in members:
                            m['X'] = round(m['X'] / k, 6)
                ev = {'op': op, 'name': self.new_name('r'), 'kind': kind, 'members': members,
                      'pkg': r.choice(['R', 'R', 'Rr']), 'basis': r.choice(['mol', 'mol', 'wt']), 'tagged': tagged}
            elif op in ('react', 'over_conversion'):
                if not self.rxns:
                    continue
                rn = r.choice(sorted(self.rxns))
                spec = self.rxns[rn][1]
                cands = [n for n in sorted(self.streams)
                         if isinstance(self.streams[n], tmo.MultiStream) == spec['tagged']]
                if not cands:
                    continue
                ev = {'op': 'react', 'rxn': rn, 'stream': r.choice(cands), 'force': False}
                if op == 'over_conversion':
                    ev['boost'] = True
            elif op == 'react_array':
                if not self.rxns:
                    continue
                rn = r.choice(sorted(self.rxns))
                spec = self.rxns[rn][1]
                n = len(IDS)
                if spec['tagged']:
                    vals = [[r.choice(FLOWS) for _ in range(n)] for _ in TAG_PHASES]
                else:
                    vals = [r.choice(FLOWS) for _ in range(n)]
                ev = {'op': op, 'rxn': rn, 'values': vals}
            elif op == 'member_basis':
                # another owner switches the basis of ONE member of a reaction system in place and applies the system
                # before switching it back: the system must either refuse or still do what its stoichiometry says
                systems = [n for n in sorted(self.rxns) if self.rxns[n][1]['kind'] == 'system']
                if not systems:
                    continue
                rn = r.choice(systems)
                spec = self.rxns[rn][1]
                cands = [n for n in sorted(self.streams)
                         if isinstance(self.streams[n], tmo.MultiStream) == spec['tagged']]
                if not cands:
                    continue
                ev = {'op': op, 'rxn': rn, 'member': r.randint(1, 3), 'stream': r.choice(cands)}
            elif op == 'derive_rxn':
                if not self.rxns or len(self.rxns) >= 7:
                    continue
                rn = r.choice(sorted(self.rxns))
                spec = self.rxns[rn][1]
                how = 'copy' if spec['kind'] == 'single' else 'item_copy'
                ev = {'op': op, 'rxn': rn, 'name': self.new_name('r'), 'how': how,
                      'index': r.randint(0, max(0, len(spec['members']) - 1))}
            elif op == 'stoich_feed':
                # reactants fed in exactly stoichiometric proportion: full conversion consumes them down to
                # zero up to rounding, which is the feasibility check's clean-up branch
                if not self.rxns:
                    continue
                rn = r.choice(sorted(self.rxns))
                spec = self.rxns[rn][1]
                mem = r.choice(spec['members'])
                amount = r.choice([0.1, 0.3, 1.0 / 7.0, 0.7, 1.0, 3.0, 0.05])
                if r.random() < 0.5:
                    cands = [n for n in sorted(self.streams)
                             if isinstance(self.streams[n], tmo.MultiStream) == spec['tagged']]
                    if not cands:
                        continue
                    ev = {'op': op, 'rxn': rn, 'member': spec['members'].index(mem), 'amount': amount,
                          'stream': r.choice(cands), 'X1': r.random() < 0.8}
                else:
                    ev = {'op': op, 'rxn': rn, 'member': spec['members'].index(mem), 'amount': amount,
                          'stream': None, 'X1': r.random() < 0.8}
            elif op == 'edit_rxn':
                if not self.rxns:
                    continue
                rn = r.choice(sorted(self.rxns))
                what = r.choice(['basis', 'X', 'X_item'])
                ev = {'op': op, 'rxn': rn, 'what': what, 'X': r.choice([0.0, 0.2, 0.5, 0.75, 1.0]),
                      'index': r.randint(0, 3)}
            elif op == 'warm':
                ev = {'op': op, 'stream': r.choice(sorted(self.streams)),
                      'what': r.choice(['imass', 'ivol', 'H', 'F_mass', 'mass_key'])}
            elif op == 'set_flows':
                n = r.choice(sorted(self.streams))
                s = self.streams[n]
                if isinstance(s, tmo.MultiStream):
                    ph = r.choice(TAG_PHASES)
                else:
                    ph = None
                ev = {'op': op, 'stream': n, 'phase': ph, 'values': [r.choice(FLOWS) for _ in IDS]}
            elif op == 'restart':
                ev = {'op': op, 'stream': r.choice(sorted(self.streams))}
            elif op == 'proxy':
                if len(self.streams) >= 8:
                    continue
                ev = {'op': op, 'stream': r.choice(sorted(self.streams)), 'new': self.new_name('p'),
                      'how': r.choice(['proxy', 'flow_proxy', 'copy'])}
            if ev is None or not self.pre(ev):
                continue
            if self.cfg['faults'] and ev['op'] == 'react' and rngs.fault.random() < 0.2:
                ev['fault'] = {'kind': 'model_error', 'site': 'V', 'nth': 1, 'exc': 'RuntimeError'}
            return ev
        return {'op': 'noop'}

    def pre(self, ev):
        op = ev['op']
        if op == 'noop':
            return True
        if ev.get('stream') is not None and ev['stream'] not in self.streams:
            return False
        if 'rxn' in ev and ev['rxn'] not in self.rxns:
            return False
        if op == 'new_rxn':
            return ev['name'] not in self.rxns
        if op == 'react':
            spec = self.rxns[ev['rxn']][1]
            return isinstance(self.streams[ev['stream']], tmo.MultiStream) == spec['tagged']
        if op == 'react_array':
            spec = self.rxns[ev['rxn']][1]
            v = ev['values']
            return (isinstance(v[0], list)) == spec['tagged']
        if op == 'set_flows':
            s = self.streams[ev['stream']]
            return (ev['phase'] is not None) == isinstance(s, tmo.MultiStream)
        if op == 'proxy':
            return ev['new'] not in self.streams
        if op == 'member_basis':
            spec = self.rxns[ev['rxn']][1]
            if spec['kind'] != 'system':
                return False
            return isinstance(self.streams[ev['stream']], tmo.MultiStream) == spec['tagged']
        if op == 'derive_rxn':
            spec = self.rxns[ev['rxn']][1]
            if ev['name'] in self.rxns:
                return False
            if ev['how'] == 'copy':
                return spec['kind'] == 'single'
            return spec['kind'] in ('parallel', 'series') and ev['index'] < len(spec['members'])
        if op == 'stoich_feed':
            spec = self.rxns[ev['rxn']][1]
            if ev['member'] >= len(spec['members']):
                return False
            if ev['stream'] is not None:
                return isinstance(self.streams[ev['stream']], tmo.MultiStream) == spec['tagged']
            return True
        if op == 'edit_rxn':
            spec = self.rxns[ev['rxn']][1]
            if ev['what'] == 'X_item':
                return spec['kind'] in ('parallel', 'series') and ev['index'] < len(spec['members'])
            return True
        return True

    # ------------------------------------------------------------ building reactions
    def build_member(self, m, pk, tagged):
        if tagged:
            left = ' + '.join(f"{-v:g} {k},{m['phases'][k]}" for k, v in m['stoich'].items() if v < 0)
            right = ' + '.join(f"{v:g} {k},{m['phases'][k]}" for k, v in m['stoich'].items() if v > 0)
            return tmo.Reaction(f'{left} -> {right}', reactant=m['reactant'], X=m['X'],
                                chemicals=pk.thermo.chemicals, phases=TAG_PHASES)
        return tmo.Reaction(dict(m['stoich']), reactant=m['reactant'], X=m['X'], chemicals=pk.thermo.chemicals)

    def build(self, ev):
        pk = pkg(ev['pkg'])
        kind = ev['kind']
        ms = ev['members']
        plain = self.build_member

        def build_member(m, pk, tagged):
            # defined on a molar basis, then converted: "both bases give the same result on a stream"
            rx = plain(m, pk, tagged)
            if ev['basis'] == 'wt':
                rx.basis = 'wt'
            return rx
        self_build_member = build_member
        if kind == 'single':
            obj = self_build_member(ms[0], pk, ev['tagged'])
        elif kind == 'parallel':
            obj = tmo.ParallelReaction([self_build_member(m, pk, ev['tagged']) for m in ms])
        elif kind == 'series':
            obj = tmo.SeriesReaction([self_build_member(m, pk, ev['tagged']) for m in ms])
        else:
            half = max(1, len(ms) // 2)
            a = tmo.ParallelReaction([self_build_member(m, pk, ev['tagged']) for m in ms[:half]])
            b = [self_build_member(m, pk, ev['tagged']) for m in ms[half:]]
            obj = tmo.ReactionSystem(a, *b)
        return obj

    # ------------------------------------------------------------ reference arithmetic
    def reference(self, spec, rows_R, boost=1.0):
        """dense result in canonical order (IDS); rows_R: array (n,) or (3, n) molar; returns new array.
        conversion X is the fraction of the reactant (in its tagged phase, if tagged) that reacts"""
        m = np.array(rows_R, float)
        tagged = spec['tagged']

        def nu_of(mem):
            nu = np.zeros_like(m)
            for k, v in mem['stoich'].items():
                c = IDS.index(k)
                if tagged:
                    nu[TAG_PHASES.index(mem['phases'][k]), c] = v
                else:
                    nu[c] = v
            if tagged:
                ridx = (TAG_PHASES.index(mem['phases'][mem['reactant']]), IDS.index(mem['reactant']))
            else:
                ridx = IDS.index(mem['reactant'])
            nu = nu / -nu[ridx]
            return nu, ridx

        lo, hi = [m.copy()], [m.copy()]     # element-wise range of the running composition over all partial steps

        def apply(mem, src, dst):
            nu, ridx = nu_of(mem)
            dst += src[ridx] * mem['X'] * boost * nu
            lo[0] = np.minimum(lo[0], dst)
            hi[0] = np.maximum(hi[0], dst)

        kind = spec['kind']
        ms = spec['members']
        if kind == 'single':
            apply(ms[0], m.copy(), m)
        elif kind == 'parallel':
            feed = m.copy()
            for mem in ms:
                apply(mem, feed, m)
        elif kind == 'series':
            for mem in ms:
                apply(mem, m.copy(), m)
        else:
            half = max(1, len(ms) // 2)
            feed = m.copy()
            for mem in ms[:half]:
                apply(mem, feed, m)
            for mem in ms[half:]:
                apply(mem, m.copy(), m)
        # how far each entry travelled during the call: an entry that went up and came back down to (almost) zero
        # carries the rounding error of the large intermediate, not of its small end value
        self.ref_travel = hi[0] - lo[0]
        return m

    def to_R(self, name, rows):
        """rows dict (phase -> array in the stream's package order) -> canonical order"""
        pk = pkg(self.pkg_of[name])
        idx = [pk.pos[c] for c in IDS]
        return {ph: row[idx] for ph, row in rows.items()}

    # ------------------------------------------------------------ execution
    def apply(self, ev):
        op = ev['op']
        if op == 'noop':
            return 'noop'
        if not self.pre(ev):
            return 'skip:pre'
        self.stats['op:' + op] += 1
        with warnings.catch_warnings():
            warnings.simplefilter('ignore')
            return getattr(self, 'do_' + op)(ev)

    def do_new_rxn(self, ev):
        obj = self.build(ev)
        spec = {'kind': ev['kind'], 'members': [dict(m) for m in ev['members']], 'tagged': ev['tagged'],
                'pkg': ev['pkg'], 'basis': ev['basis']}
        self.rxns[ev['name']] = (obj, spec)
        return 'ok'

    def do_edit_rxn(self, ev):
        obj, spec = self.rxns[ev['rxn']]
        if ev['what'] == 'basis':
            if spec['kind'] != 'single':
                return 'skip'       # reaction sets reject a change of basis by design
            new = 'wt' if spec['basis'] == 'mol' else 'mol'
            obj.basis = new
            spec['basis'] = new
        elif ev['what'] == 'X':
            if spec['kind'] == 'single':
                obj.X = ev['X']
                spec['members'][0]['X'] = ev['X']
            elif spec['kind'] in ('parallel', 'series'):
                k = len(spec['members'])
                x = ev['X'] / k if spec['kind'] == 'parallel' else ev['X']
                obj.X = np.array([x] * k)
                for m in spec['members']:
                    m['X'] = x
            else:
                return 'skip'
        else:
            # changing the conversion of an item changes the set
            item = obj[ev['index']]
            item.X = ev['X']
            spec['members'][ev['index']]['X'] = ev['X']
        return 'ok'

    def do_member_basis(self, ev):
        obj, spec = self.rxns[ev['rxn']]
        members = [m for m in obj.reactions if type(m) is tmo.Reaction]
        if not members:
            return 'skip:no-plain-member'
        m = members[ev['member'] % len(members)]
        old = m.basis
        new = 'wt' if old == 'mol' else 'mol'
        try:
            m.basis = new
        except Exception as e:
            self.stats[f'exc:member_basis:{type(e).__name__}'] += 1
            return 'exc'
        self.stats['fault:member_basis_switched_under_a_system'] += 1
        try:
            return self.do_react({'op': 'react', 'rxn': ev['rxn'], 'stream': ev['stream'], 'force': False})
        finally:
            m.basis = old

    def do_derive_rxn(self, ev):
        """A copy of a reaction (or of an item of a set) is a reaction of its own: later in-place edits of
        either (basis, conversion) must not reach the other.  Both stay in the pool with their own spec."""
        obj, spec = self.rxns[ev['rxn']]
        import copy as _copy
        try:
            if ev['how'] == 'copy':
                new = obj.copy()
                nspec = _copy.deepcopy(spec)
            else:
                new = obj[ev['index']].copy()
                nspec = {'kind': 'single', 'members': [dict(spec['members'][ev['index']])], 'tagged': spec['tagged'],
                         'pkg': spec['pkg'], 'basis': spec['basis']}
        except Exception as e:
            self.stats[f'exc:derive_rxn:{type(e).__name__}'] += 1
            return f'exc:{type(e).__name__}'
        self.rxns[ev['name']] = (new, nspec)
        return 'ok'

    def do_stoich_feed(self, ev):
        obj, spec = self.rxns[ev['rxn']]
        mem = spec['members'][ev['member']]
        nu_r = -mem['stoich'][mem['reactant']]
        n = len(IDS)
        if spec['tagged']:
            vals = np.zeros((len(TAG_PHASES), n))
            for k, v in mem['stoich'].items():
                if v < 0:
                    vals[TAG_PHASES.index(mem['phases'][k]), IDS.index(k)] = ev['amount'] * (-v) / nu_r
        else:
            vals = np.zeros(n)
            for k, v in mem['stoich'].items():
                if v < 0:
                    vals[IDS.index(k)] = ev['amount'] * (-v) / nu_r
        restore = None
        if ev['X1'] and spec['kind'] == 'single':
            restore = mem['X']
            obj.X = 1.0
            mem['X'] = 1.0
        try:
            if ev['stream'] is None:
                if spec['basis'] == 'wt':
                    vals = vals * pkg('R').MW
                return self.do_react_array({'op': 'react_array', 'rxn': ev['rxn'], 'values': vals.tolist()})
            name = ev['stream']
            s = self.streams[name]
            pk = pkg(self.pkg_of[name])
            idx = [IDS.index(c) for c in pk.ids]
            if spec['tagged']:
                for i, ph in enumerate(TAG_PHASES):
                    s.imol[ph] = vals[i][idx]
            else:
                s.imol[...] = vals[idx]
            return self.do_react({'op': 'react', 'rxn': ev['rxn'], 'stream': name, 'force': False})
        finally:
            if restore is not None:
                obj.X = restore
                mem['X'] = restore

    def do_warm(self, ev):
        s = self.streams[ev['stream']]
        try:
            w = ev['what']
            if w == 'imass':
                s.imass.data
            elif w == 'ivol':
                s.ivol.data
            elif w == 'mass_key':
                s.imass['Water']
            else:
                getattr(s, w)
        except Exception:
            self.stats['exc:warm'] += 1
        return 'ok'

    def do_set_flows(self, ev):
        s = self.streams[ev['stream']]
        pk = pkg(self.pkg_of[ev['stream']])
        vals = np.array([ev['values'][IDS.index(c)] for c in pk.ids], float)
        if ev['phase'] is None:
            s.imol[...] = vals
        else:
            s.imol[ev['phase']] = vals
        return 'ok'

    def do_restart(self, ev):
        n = ev['stream']
        before = self.rows(n)
        try:
            self.streams[n] = _restart(self.streams[n], self.pkg_of[n])
        except Exception:
            self.stats['exc:restart'] += 1
            return 'exc'
        self.stats['fault:restart'] += 1
        after = self.rows(n)
        if set(before) != set(after) or any(not close(before[k], after[k]) for k in before):
            self.stats['restart_changed_flows'] += 1
        return 'ok'

    def do_proxy(self, ev):
        s = self.streams[ev['stream']]
        try:
            new = getattr(s, ev['how'])()
        except Exception:
            self.stats['exc:proxy'] += 1
            return 'exc'
        self.streams[ev['new']] = new
        self.pkg_of[ev['new']] = self.pkg_of[ev['stream']]
        return 'ok'

    def do_react(self, ev):
        name = ev['stream']
        s = self.streams[name]
        obj, spec = self.rxns[ev['rxn']]
        pk = pkg(self.pkg_of[name])
        before = self.rows(name)
        bR = self.to_R(name, before)
        boost = 1.0
        if ev.get('boost'):
            boost = 3.0      # ask for more than 100 % by tripling X on the object for this call
            self._scale_X(obj, spec, 3.0)
        try:
            if spec['tagged']:
                m0 = np.array([bR[ph] for ph in TAG_PHASES])
            else:
                ph0 = s.phase
                m0 = bR[ph0]
            want = self.reference(spec, m0, boost)
            with faults.armed(ev.get('fault')) as plan:
                try:
                    obj(s)
                    exc = None
                except Violation:
                    raise
                except Exception as e:
                    exc = e
            if plan is not None and plan['fired']:
                self.stats['fault:model_error'] += 1
        finally:
            if ev.get('boost'):
                self._scale_X(obj, spec, 1.0 / 3.0)
        self.stats['mechanism_ops'] += 1
        scale = max(1.0, float(np.abs(m0).max()))
        # the library rejects when the negative part sums below -1e-12; between "no negative beyond rounding"
        # and "clearly negative" either outcome is accepted (rounding of the harness' own arithmetic)
        if ((want < 0) & (want > -1e-12)).any():
            self.stats['probe:negligible_negative_cleanup_expected'] += 1
        infeasible = bool((want < -1e-7 * scale).any())
        feasible = self._clearly_feasible(want)
        # a species consumed down to (almost) exactly zero: rounding in the library's own arithmetic (done in
        # the reaction's basis, kg for 'wt') decides on which side of its -1e-12 threshold it lands
        if bool(((want < 1e-9 * scale) & ((want < np.asarray(m0) - 1e-12) | (self.ref_travel > 1e-12))).any()):
            feasible = False
        if exc is not None:
            if plan is not None and plan['fired']:
                self.stats['failed_by_fault'] += 1
                self._after_error(name)
                return 'exc-injected'
            if isinstance(exc, InfeasibleRegion):
                if feasible:
                    self.fail('feasible-rejected', f'{ev["rxn"]}({name}) raised InfeasibleRegion although the requested '
                              f'conversion leaves every flow non-negative: {exc}',
                              {'event': ev, 'spec': spec, 'feed': {k: v.tolist() for k, v in bR.items()},
                               'expected': want.tolist()})
                self.stats['probe:over_conversion_rejected'] += 1
                self._after_error(name)
                return 'rejected'
            self.stats[f'exc:react:{type(exc).__name__}'] += 1
            self._after_error(name)
            return f'exc:{type(exc).__name__}'
        # returned normally
        after = self.rows(name)
        aR = self.to_R(name, after)
        if spec['tagged']:
            got = np.array([aR[ph] for ph in TAG_PHASES])
        else:
            if s.phase != ph0 or set(after) != set(before):
                self.fail('phase-changed', f'{ev["rxn"]}({name}) changed the phase of the stream')
            got = aR[ph0]
        detail = {'event': ev, 'spec': spec, 'feed': m0.tolist(), 'got': got.tolist(), 'expected': want.tolist()}
        if (got < 0).any():
            self.fail('negative-flow', f'{ev["rxn"]}({name}) returned normally with a negative flow '
                      f'({float(got.min())!r})', detail)
        if infeasible:
            self.fail('over-conversion-accepted', f'{ev["rxn"]}({name}) returned normally although the conversion requires '
                      f'a negative flow', detail)
        tol_want = np.where(want < 0, 0.0, want)      # negligible negatives are clipped to zero
        if not close(got, tol_want, 1e-9, 2e-7 * scale if not feasible else 1e-9 * scale):
            self.fail('stoichiometry', f'{ev["rxn"]}({name}) [{spec["kind"]}, {spec["basis"]} basis]: flows differ from '
                      f'X x feed x stoichiometry', detail)
        MW = pkg('R').MW
        atoms = pkg('R').atoms
        if not close((got * MW).sum(), (m0 * MW).sum(), 1e-9, 1e-9 * scale):
            self.fail('mass', f'{ev["rxn"]}({name}): total mass changed from {(m0 * MW).sum()} to {(got * MW).sum()}', detail)
        e0 = atoms @ (m0.sum(0) if m0.ndim == 2 else m0)
        e1 = atoms @ (got.sum(0) if got.ndim == 2 else got)
        if not close(e0, e1, 1e-9, 1e-8 * scale):
            self.fail('atoms', f'{ev["rxn"]}({name}): element flows (C,H,O) changed from {e0.tolist()} to {e1.tolist()}',
                      detail)
        # the stream is on its own package again and its views are coherent
        if s.imol.chemicals is not pk.thermo.chemicals:
            self.fail('package-not-restored', f'{name}: indexer left on the reaction\'s property package')
        with faults.disarmed():
            mass = s.imass.data
            mrows = ({ph: np.array(mass.rows[i].to_array(), float) for i, ph in enumerate(s.phases)}
                     if isinstance(s, tmo.MultiStream) else {s.phase: np.array(mass.to_array(), float)})
        for ph in after:
            if not close(mrows[ph], after[ph] * pk.MW, 1e-9, 1e-9):
                self.fail('mass-view-after-reaction', f'{name}: mass view disagrees with mol x MW after the reaction', detail)
        return ['ok', [float(x).hex() for x in np.ravel(got)[:6]]]

    def _clearly_feasible(self, want):
        """The library rejects when the negative part of the result sums below -1e-12 IN THE REACTION'S BASIS
        (kmol or kg).  The harness' arithmetic is molar (or in the array's own unit), so the negative part is
        also weighed by the molecular weights (up to 180) and their inverse: only when all three sums are an
        order of magnitude inside the threshold is a rejection called unjustified."""
        MW = pkg('R').MW
        neg = np.where(want < 0, want, 0.0)
        return bool(min(neg.sum(), (neg * MW).sum(), (neg / MW).sum()) > -1e-13)

    def _scale_X(self, obj, spec, k):
        if isinstance(obj, tmo.ReactionSystem):
            for i in obj.reactions:
                i.X = i.X * k
        else:
            obj.X = obj.X * k

    def _after_error(self, name):
        """C05 promises nothing after an error; record what state the stream was left in (statistics)."""
        s = self.streams[name]
        pk = pkg(self.pkg_of[name])
        try:
            if s.imol.chemicals is not pk.thermo.chemicals:
                self.stats['probe:package_left_swapped_after_error'] += 1
                s.imol.reset_chemicals(pk.thermo.chemicals)     # harness repair so that the run can go on
            if any((row < 0).any() for row in self.rows(name).values()):
                self.stats['probe:negative_left_after_error'] += 1
                s.imol.data.remove_negatives()
        except Exception:
            self.stats['exc:after_error_repair'] += 1

    def do_react_array(self, ev):
        obj, spec = self.rxns[ev['rxn']]
        pk = pkg(spec['pkg'])
        idx = [IDS.index(c) for c in pk.ids]
        vals = np.array(ev['values'], float)
        arr = vals[..., idx].copy()       # array in the REACTION's package order
        MW_R = pkg('R').MW
        if spec['basis'] == 'wt':         # a bare array is taken in the reaction's own basis
            want = self.reference(spec, vals / MW_R) * MW_R
        else:
            want = self.reference(spec, vals)
        scale = max(1.0, float(np.abs(vals).max()))
        if ((want < 0) & (want > -1e-12)).any():
            self.stats['probe:negligible_negative_cleanup_expected'] += 1
        infeasible = bool((want < -1e-7 * scale).any())
        feasible = self._clearly_feasible(want)
        travel = self.ref_travel * (MW_R if spec['basis'] == 'wt' else 1.0)
        if bool(((want < 1e-9 * scale) & ((want < vals - 1e-12) | (travel > 1e-12))).any()):
            feasible = False
        try:
            obj(arr)
            exc = None
        except Exception as e:
            exc = e
        self.stats['mechanism_ops'] += 1
        if exc is not None:
            if isinstance(exc, InfeasibleRegion):
                if feasible:
                    self.fail('feasible-rejected', f'{ev["rxn"]}(array) raised InfeasibleRegion for a feasible conversion')
                return 'rejected'
            self.stats[f'exc:react_array:{type(exc).__name__}'] += 1
            return f'exc:{type(exc).__name__}'
        back = np.zeros_like(vals)
        back[..., idx] = arr
        detail = {'event': ev, 'spec': spec, 'got': back.tolist(), 'expected': want.tolist()}
        if (back < 0).any():
            self.fail('negative-flow', f'{ev["rxn"]}(array) returned normally with a negative entry '
                      f'({float(back.min())!r})', detail)
        if infeasible:
            self.fail('over-conversion-accepted', f'{ev["rxn"]}(array) returned normally although a flow must go negative',
                      detail)
        if not close(back, np.where(want < 0, 0.0, want), 1e-9, 1e-9 * scale):
            self.fail('stoichiometry', f'{ev["rxn"]}(array) [{spec["kind"]}, {spec["basis"]}]: result differs from the '
                      f'reference arithmetic', detail)
        return 'ok'

    # ------------------------------------------------------------ measures
    def abstract_state(self):
        out = []
        for n in sorted(self.streams):
            s = self.streams[n]
            try:
                out.append((type(s).__name__, tuple(s.phases), self.pkg_of[n],
                            tuple(sorted(str(k) for k in s._imol._data_cache)),
                            tuple(bool(v.any()) for v in self.rows(n).values())))
            except Exception:
                out.append((n, 'err'))
        for n in sorted(self.rxns):
            sp = self.rxns[n][1]
            out.append((sp['kind'], sp['basis'], sp['tagged'], sp['pkg'], len(sp['members'])))
        return out

    def shared_touch(self, ev):
        return ev.get('op') if ev.get('op') in ('react', 'edit_rxn', 'derive_rxn', 'stoich_feed', 'member_basis') else None


def _restart(stream, pid):
    import io
    import pickle

    class P(pickle.Pickler):
        def persistent_id(self, obj):
            if isinstance(obj, tmo.Thermo):
                for k in ('R', 'Rr'):
                    if k in _pk and _pk[k].thermo is obj:
                        return ('thermo', k)
            return None

    class U(pickle.Unpickler):
        def persistent_load(self, pid_):
            return pkg(pid_[1]).thermo
    buf = io.BytesIO()
    P(buf, protocol=pickle.HIGHEST_PROTOCOL).dump(stream)
    buf.seek(0)
    from sim import universe as _u
    with _u.no_compiled_cache_growth():
        return U(buf).load()
