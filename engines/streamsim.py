"""streamsim: histories of public-API calls by several stub unit operations ("tasks") on a
shared universe of real thermosteam streams (C01 C02 C05 C10 C11 C12 C13 C14 C20).

Real code: thermosteam streams, indexers, sparse arrays, mixture models, reactions,
separations.  Real but wrapped: mixture property models (S2) and flexsolve solvers (S3),
pass-through unless a fault is armed for one operation.  Stubs: the unit operations
(tasks issuing API calls) and the scheduler.

Oracle style (DESIGN 2.3): before every operation the involved real streams are projected
to dense arrays (the snapshot); the operation's documented effect is computed on the
snapshot by dense arithmetic written here; afterwards the real objects are projected again
and compared.  History lives in the real objects (aged caches, shared containers, leftover
material), never in the oracle.
"""
import math
import pickle
import warnings

import numpy as np

from sim import env
from sim.kernel import BaseWorld, Violation, Inconclusive

env.import_thermosteam()
import thermosteam as tmo  # noqa: E402
from thermosteam import indexer as tmo_indexer  # noqa: E402
from sim import faults, universe  # noqa: E402

faults.install_solver_seams()
warnings.filterwarnings('ignore')

NAME = 'streamsim'

PHASES = ['l', 'g', 's', 'L', 'S']
RTOL = 1e-9
ATOL = 1e-12

CHEM_PHASE = {'N2': 'g', 'CO2': 'g', 'Glucose': 's'}
FLOW_ALPHABET = [0.0, 0.0, 0.25, 0.5, 1.0, 1.5, 2.0, 3.0, 10.0, 0.125, 100.0, 1e-3, 1e3]
T_ALPHABET = [280.0, 298.15, 300.0, 320.0, 350.0, 360.0, 400.0]
P_ALPHABET = [101325.0, 50000.0, 202650.0, 1e6]

UNITS = {
    'mol': [('kmol/hr', 1.0), ('mol/s', 1000.0 / 3600.0), ('mol/hr', 1000.0)],
    'mass': [('kg/hr', 1.0), ('lb/hr', 2.2046226218487757), ('g/min', 1000.0 / 60.0)],
    'vol': [('m3/hr', 1.0), ('L/min', 1000.0 / 60.0), ('gal/min', 264.17205235814845 / 60.0)],
}

PROPERTY_NAMES = ['H', 'S', 'C', 'Cn', 'V', 'rho', 'mu', 'kappa', 'sigma', 'epsilon', 'Hvap', 'Cp',
                  'alpha', 'nu', 'Pr', 'F_vol', 'Hnet', 'h', 'MW', 'F_mass', 'F_mol',
                  # quantities derived from the molar volume / molecular weight, as arrays
                  'vol', 'z_vol', 'mass', 'z_mass']
ARRAY_PROPERTIES = {'vol', 'z_vol', 'mass', 'z_mass'}


def read_property(s, pname):
    v = getattr(s, pname)
    if pname in ARRAY_PROPERTIES:
        return np.array(dense(v), dtype=float).ravel()
    return v

# ------------------------------------------------------------------ op sets per property

BACKGROUND_MUTATORS = ['set_flow', 'set_T', 'set_P', 'scale', 'empty', 'set_total']
STRUCTURE_OPS = ['copy', 'copy_like', 'proxy', 'flow_proxy', 'link_with', 'unlink', 'view',
                 'set_phases', 'set_phase', 'reduce_phases', 'as_stream', 'touch_solver',
                 'restart', 'reset_cache']
MIX_OPS = ['mix_from', 'split_to', 'separate_out', 'copy_flow', 'sum', 'iadd', 'isub', 'imul']
READ_OPS = ['read_prop', 'read_flow', 'read_total']

OPS_BY_PROP = {
    'C01': MIX_OPS * 3 + BACKGROUND_MUTATORS + ['empty_negatives', 'copy', 'proxy', 'flow_proxy', 'view', 'set_phases',
                                                 'set_phase', 'restart', 'churn', 'link_with', 'unlink'],
    'C10': ['read_flow'] * 6 + ['set_flow'] * 4 + ['churn'] * 2 + ['mix_from', 'copy', 'restart',
                                                                  'set_phases', 'bad_key', 'view', 'bad_alias', 'reuse_key', 'reuse_key'],
    'C11': ['move_phase', 'read_flow', 'read_total', 'set_flow', 'set_flow', 'set_total', 'set_T', 'set_P', 'set_phase',
            'set_phases', 'link_with', 'unlink', 'proxy', 'flow_proxy', 'copy_like', 'copy', 'restart',
            'reset_cache', 'view', 'scale', 'mix_from', 'bad_units', 'churn', 'reduce_phases', 'empty',
            'split_to', 'check_views', 'check_views', 'bad_link', 'empty_negatives', 'fault_then_total'],
    'C02': ['set_energy'] * 5 + ['mix_energy'] * 5 + ['separate_energy'] * 2 + ['bad_energy'] + ['set_T', 'set_T', 'set_P', 'set_flow',
            'set_flow', 'scale', 'read_prop', 'read_prop', 'proxy', 'copy', 'restart', 'link_with', 'unlink',
            'flow_proxy', 'reset_cache', 'set_phase'],
    'C12': ['move_phase'] + ['set_phases'] * 4 + ['reduce_phases', 'as_stream', 'touch_solver', 'touch_solver', 'view_write',
            'view_write', 'view_write', 'save_data', 'restore_data', 'restore_data', 'set_flow', 'set_flow',
            'set_T', 'set_P', 'restart', 'view', 'copy', 'mix_from', 'scale', 'empty', 'copy_like', 'link_with',
            'unlink', 'reset_cache'],
    'C13': ['move_phase', 'copy', 'copy', 'copy_like', 'copy_like', 'copy_flow', 'copy_thermal_condition', 'copy_phase', 'proxy',
            'proxy', 'flow_proxy', 'flow_proxy', 'link_with', 'link_with', 'link_with', 'unlink', 'unlink', 'view',
            'restart', 'pickle_obj', 'set_flow', 'set_flow', 'set_flow', 'set_T', 'set_P', 'set_phase', 'scale',
            'empty', 'set_total', 'mix_from', 'split_to', 'separate_out', 'read_prop', 'read_flow', 'save_data',
            'restore_data', 'set_phases', 'churn', 'bad_link'],
    'C14': ['read_prop'] * 8 + BACKGROUND_MUTATORS * 2 + ['reset_thermo', 'unit_basis'] + ['move_phase', 'move_phase', 'set_phase', 'set_phases', 'mix_from', 'split_to',
            'copy_like', 'link_with', 'unlink', 'proxy', 'flow_proxy', 'view', 'restart', 'reset_cache',
            'reduce_phases', 'copy', 'separate_out', 'copy_flow'],
}


def make_cfg(rng, prop, tier):
    lo, hi = tier.get('steps', (20, 60))
    ops = sorted(set(OPS_BY_PROP[prop]))
    # swarm: keep every op with prob 0.8, but the property's core mechanism always
    weights = {}
    for o in ops:
        w = OPS_BY_PROP[prop].count(o)
        if rng.random() < 0.2 and o not in CORE_OPS.get(prop, ()):
            w = 0
        weights[o] = w
    n_streams = rng.randint(3, 7)
    streams = []
    energy = prop == 'C02'
    for i in range(n_streams):
        pkg = rng.choice(['A', 'A', 'A2', 'A2', 'B', 'C'] if prop == 'C10' else
                         ['A', 'A', 'A', 'B', 'C', 'E', 'E'] if energy else ['A', 'A', 'A', 'B', 'C'])
        kind = rng.choice(['single', 'single', 'multi'])
        if pkg in universe.EOS_PACKAGES:
            kind = 'single'
        spec = {'name': f's{i}', 'pkg': pkg, 'kind': kind,
                'T': rng.choice(T_ALPHABET), 'P': rng.choice(P_ALPHABET)}
        n = len(universe.PACKAGES[pkg][0])
        if kind == 'single':
            spec['phase'] = rng.choice(['l', 'l', 'g']) if energy else rng.choice(['l', 'l', 'g', 's', 'L', 'S'])
            if pkg in universe.EOS_PACKAGES:
                spec['phase'] = 'g'
            spec['flows'] = [rng.choice(FLOW_ALPHABET) for _ in range(n)]
            if energy and not any(spec['flows']):
                spec['flows'][0] = 1.0
        else:
            k = rng.randint(1, 4)
            phases = ['g', 'l'] if energy else rng.sample(PHASES, k)
            if prop == 'C10' and rng.random() < 0.6:
                phases = ['g', 'l']
            spec['phases'] = phases
            spec['flows'] = {p: [rng.choice(FLOW_ALPHABET + [0.0] * 6) for _ in range(n)] for p in phases}
        streams.append(spec)
    return {
        'world': 'stream', 'steps': rng.randint(lo, hi), 'streams': streams, 'weights': weights,
        'faults': rng.random() < tier.get('fault_rate', 0.3),
        'n_tasks': rng.randint(2, 4),
        'regions': list(tier.get('regions', [])),
        'step_timeout': 20.0,
    }


TASKS_BY_PROP = {
    'C14': ['revisit', 'revisit', 'link_cycle'],
    'C11': ['link_cycle', 'link_cycle', 'revisit'],
    'C13': ['link_cycle', 'revisit'],
    'C01': ['link_cycle'],
    'C12': ['link_cycle', 'revisit'],
    'C02': ['revisit'],
    'C10': ['revisit'],
}

CORE_OPS = {
    'C02': {'set_energy', 'mix_energy', 'separate_energy'},
    'C12': {'set_phases', 'reduce_phases', 'as_stream', 'touch_solver', 'view_write', 'restore_data'},
    'C13': {'copy', 'copy_like', 'proxy', 'flow_proxy', 'link_with', 'unlink', 'restart', 'pickle_obj'},
    'C01': set(MIX_OPS),
    'C10': {'read_flow', 'set_flow', 'churn'},
    'C11': {'read_flow', 'set_flow', 'check_views', 'set_T', 'set_phase'},
    'C14': {'read_prop', 'set_flow', 'set_T'},
}


def World(prop, cfg):
    return StreamWorld(prop, cfg)


# ------------------------------------------------------------------ helpers

def dense(x):
    """Dense float image of a sparse vector / array / ndarray."""
    if hasattr(x, 'to_array'):
        return np.array(x.to_array(), dtype=float)
    return np.array(x, dtype=float)


def close(a, b, rtol=RTOL, atol=ATOL):
    a = np.asarray(a, dtype=float)
    b = np.asarray(b, dtype=float)
    if a.shape != b.shape:
        return False
    return bool(np.all(np.abs(a - b) <= atol + rtol * np.maximum(np.abs(a), np.abs(b))))


def fl(x):
    """stable text of a float for the digest"""
    try:
        return float(x).hex()
    except Exception:
        return repr(x)


class Proj:
    """Dense projection of one stream's observable state."""
    __slots__ = ('kind', 'phases', 'rows', 'T', 'P', 'pkg')

    def total(self):
        return sum(self.rows.values()) if self.rows else None

    def to_json(self):
        return {'kind': self.kind, 'phases': list(self.phases), 'T': self.T, 'P': self.P, 'pkg': self.pkg,
                'rows': {p: self.rows[p].tolist() for p in self.rows}}


class StreamWorld(BaseWorld):

    def __init__(self, prop, cfg):
        super().__init__(prop, cfg)
        universe.reset_globals()
        self.regions = set(cfg.get('regions', []))
        self.streams = {}
        self.pkg_of = {}
        self.meta = {}        # name -> {'origin': ..., 'parent': ...}
        self.counter = 0
        self.saved_data = {}
        self.tasks = None
        self.fgroup_kind = {}
        self.kind_cache = {}
        self.fgroup = {}      # name -> id of the group of streams expected to share flow data
        self.tgroup = {}      # ... expected to share temperature and pressure
        self.pgroup = {}      # ... expected to share the phase (single-phase streams)
        self.iclass = {}      # streams that are one and the same indexer object (a proxy and its original)
        self.vgroups = {}     # (flow group of the parent, phase) -> flow group of that phase row
        self.vparent = {}     # row group id -> (parent group id, phase)
        self.locked_pgroups = set()   # phase groups that contain a per-phase view (phase cannot be assigned)
        self.ngroups = 0
        for spec in cfg['streams']:
            self._create(spec)
        self.touched = set(self.streams)

    # ------------------------------------------------------------ universe
    def _create(self, spec):
        pk = universe.package(spec['pkg'])
        if spec['kind'] == 'single':
            s = tmo.Stream(None, flow=np.array(spec['flows'], dtype=float), phase=spec['phase'],
                           T=spec['T'], P=spec['P'], thermo=pk.thermo)
        else:
            phases = spec['phases']
            s = tmo.MultiStream(None, phases=tuple(phases), T=spec['T'], P=spec['P'], thermo=pk.thermo)
            for p in phases:
                s.imol[p] = np.array(spec['flows'][p], dtype=float)
        self.streams[spec['name']] = s
        self.pkg_of[spec['name']] = spec['pkg']
        self.meta[spec['name']] = {'origin': 'initial'}
        self.fgroup[spec['name']] = self.new_group()
        self.tgroup[spec['name']] = self.new_group()
        self.pgroup[spec['name']] = self.new_group()
        self.iclass[spec['name']] = self.new_group()
        return s

    def new_group(self):
        self.ngroups += 1
        return self.ngroups

    def related_groups(self, gids):
        """flow-group ids that cover (part of) the same data: a group, the per-phase row groups carved
        out of it, and the group a row group was carved out of"""
        S = set(gids)
        changed = True
        while changed:
            changed = False
            for vg, (pg, _ph) in self.vparent.items():
                if vg in S and pg not in S:
                    S.add(pg)
                    changed = True
                if pg in S and vg not in S:
                    S.add(vg)
                    changed = True
        return S

    def group_size(self, name):
        ids = self.related_groups({self.fgroup[name]})
        return sum(1 for n, v in self.fgroup.items() if v in ids and n in self.streams)

    def is_attached_view_of(self, v, parent):
        m = self.meta.get(v, {})
        return bool(m.get('view_of')) and m['view_of'][0] == parent and not m.get('detached')

    def partners_not_kept_consistent(self, name):
        """partners other than the stream's own attached per-phase views (those follow the stream's data:
        MultiStream._update_phase_streams); proxies, flow proxies and linked streams do not (KF-C13-1)"""
        ids = self.related_groups({self.fgroup[name]})
        return [n for n, v in self.fgroup.items()
                if v in ids and n in self.streams and n != name and not self.is_attached_view_of(n, name)]

    def view_group(self, parent, phase):
        key = (self.fgroup[parent], phase)
        if key not in self.vgroups:
            self.vgroups[key] = g = self.new_group()
            self.vparent[g] = key
        return self.vgroups[key]

    def new_name(self, prefix='n'):
        self.counter += 1
        return f'{prefix}{self.counter}'

    def add_stream(self, name, s, pkg, origin, parent=None, shares_flow=False, shares_tp=False,
                   shares_phase=False, view_of=None):
        self.streams[name] = s
        self.pkg_of[name] = pkg
        self.meta[name] = {'origin': origin, 'parent': parent}
        if view_of:
            self.meta[name]['view_of'] = view_of      # obtained as parent[phase]: follows the parent's data
        self.fgroup[name] = self.fgroup[parent] if (shares_flow and parent) else self.new_group()
        if origin == 'view' and view_of and parent == view_of[0]:
            self.fgroup[name] = self.view_group(parent, view_of[1])     # one phase row of the parent's data
        self.tgroup[name] = self.tgroup[parent] if (shares_tp and parent) else self.new_group()
        self.pgroup[name] = self.pgroup[parent] if (shares_phase and parent) else self.new_group()
        self.iclass[name] = self.iclass[parent] if (origin in ('proxy',) or (origin == 'view' and shares_phase)) \
            and parent else self.new_group()
        self.touched.add(name)

    def pk(self, name):
        return universe.package(self.pkg_of[name])

    def is_multi(self, name):
        return isinstance(self.streams[name], tmo.MultiStream)

    def project(self, name):
        try:
            return self._project(name)
        except Violation:
            raise
        except Exception as e:
            # the real object can no longer answer T / P / phases / imol: it is internally inconsistent
            self.fail('corrupt-object', f'{name}: reading the public state raised {type(e).__name__}: {e}',
                      {'class': type(self.streams[name]).__name__,
                       'indexer': type(self.streams[name]._imol).__name__})

    def _project(self, name):
        s = self.streams[name]
        p = Proj()
        p.pkg = self.pkg_of[name]
        p.T = float(s.T)
        p.P = float(s.P)
        if isinstance(s, tmo.MultiStream):
            p.kind = 'multi'
            p.phases = tuple(s.phases)
            data = s.imol.data
            p.rows = {ph: dense(data.rows[i]) for i, ph in enumerate(p.phases)}
        else:
            p.kind = 'single'
            p.phases = (s.phase,)
            p.rows = {s.phase: dense(s.imol.data)}
        if p.kind == 'multi' and len(s.imol.data.rows) != len(p.phases):
            self.fail('corrupt-object', f'{name}: phase tuple {p.phases} but {len(s.imol.data.rows)} data rows',
                      {'class': type(s).__name__})
        n = self.pk(name).n
        for ph, row in p.rows.items():
            if row.shape != (n,):
                self.fail('shape', f'{name}: flow row of phase {ph} has shape {row.shape}, package has {n} chemicals')
        return p

    def fresh_twin(self, proj):
        """A brand-new stream built from observable state only."""
        pk = universe.package(proj.pkg)
        if proj.kind == 'single':
            ph, = proj.phases
            return tmo.Stream(None, flow=proj.rows[ph].copy(), phase=ph, T=proj.T, P=proj.P, thermo=pk.thermo)
        s = tmo.MultiStream(None, phases=tuple(proj.phases), T=proj.T, P=proj.P, thermo=pk.thermo)
        for ph in proj.phases:
            s.imol[ph] = proj.rows[ph].copy()
        return s

    # ------------------------------------------------------------ tasks (multi-step stub unit operations)
    def partners(self, name):
        """streams that may observe a change made through `name` (by the harness' own bookkeeping)"""
        g = self.fgroup[name]
        out = [n for n in sorted(self.streams) if n != name and self.fgroup.get(n) == g]
        return out

    def new_task(self, rngs):
        r = rngs.sched
        kind = r.choice(TASKS_BY_PROP.get(self.prop, ['revisit']))
        a = r.choice(sorted(self.streams))
        t = {'kind': kind, 'a': a, 'step': 0, 'id': self.new_name('t')}
        if kind == 'revisit':
            t['prop'] = rngs.args.choice(['H', 'S', 'Cn', 'V', 'mu', 'kappa', 'rho', 'C', 'h', 'F_vol', 'Hvap'])
            t['mut'] = rngs.args.choice(['T', 'T', 'P', 'flow', 'phase', 'scale'])
        elif kind == 'link_cycle':
            t['flags'] = [rngs.args.random() < 0.7 for _ in range(3)]
        return t

    def task_next(self, t, rngs):
        """-> event dict, or None when the task is finished"""
        r = rngs.args
        a = t['a']
        if a not in self.streams:
            return None
        s = self.streams[a]
        k = t['step']
        t['step'] += 1
        kind = t['kind']
        if kind == 'revisit':
            ps = self.partners(a)
            b = r.choice(ps) if ps and r.random() < 0.7 else a
            if k == 0:
                return {'op': 'read_prop', 'stream': a, 'name': t['prop']}
            if k == 1 and ps == [] and len(self.streams) < 14 and r.random() < 0.6:
                how = r.choice(['proxy', 'proxy', 'flow_proxy', 'view'])
                if how == 'view' and not self.is_multi(a):
                    how = 'proxy'
                ev = {'op': how, 'stream': a, 'new': self.new_name(how[0])}
                if how == 'view':
                    ev['phase'] = r.choice(list(s.phases))
                return ev
            if k in (1, 2):
                m = t['mut']
                if 'orig' not in t:
                    if m == 'T':
                        t['orig'] = float(s.T)
                        return {'op': 'set_T', 'stream': a, 'T': r.choice([x for x in T_ALPHABET if x != s.T])}
                    if m == 'P':
                        t['orig'] = float(s.P)
                        return {'op': 'set_P', 'stream': a, 'P': r.choice([x for x in P_ALPHABET if x != s.P])}
                    if m == 'scale':
                        t['orig'] = 0.5
                        return {'op': 'scale', 'stream': a, 'k': 2.0, 'form': 'scale'}
                    if m == 'phase' and not self.is_multi(a):
                        t['orig'] = s.phase
                        return {'op': 'set_phase', 'stream': a, 'phase': r.choice([x for x in 'lg' if x != s.phase] or ['g'])}
                    if m in ('phase', 'flow') and self.is_multi(a) and len(s.phases) >= 2:
                        src_c = [ph for ph in s.phases if dense(s.imol[ph]).any()]
                        if src_c:
                            src = r.choice(src_c)
                            dst = r.choice([ph for ph in s.phases if ph != src])
                            t['mut'] = 'move'
                            t['orig'] = [dst, src]
                            return {'op': 'move_phase', 'stream': a, 'src': src, 'dst': dst}
                    if m == 'flow' and not self.is_multi(a):
                        pk = self.pk(a)
                        c = r.randrange(pk.n)
                        t['orig'] = [pk.ids[c], float(dense(s.imol.data)[c])]
                        return {'op': 'set_flow', 'stream': a, 'view': 'mol',
                                'key': {'ids': pk.ids[c], 'seq': 'tuple', 'phase': None},
                                'values': r.choice([x for x in FLOW_ALPHABET if x != t['orig'][1]])}
                    t['mut'] = 'T'
                    t['orig'] = float(s.T)
                    return {'op': 'set_T', 'stream': a, 'T': r.choice([x for x in T_ALPHABET if x != s.T])}
                return {'op': 'read_prop', 'stream': r.choice([a, b]), 'name': t['prop']}
            if k == 3:
                return {'op': 'read_prop', 'stream': a, 'name': t['prop']}
            if k == 4:
                m = t['mut']
                o = t.get('orig')
                if o is None:
                    return None
                if m == 'T':
                    return {'op': 'set_T', 'stream': a, 'T': o}
                if m == 'P':
                    return {'op': 'set_P', 'stream': a, 'P': o}
                if m == 'scale':
                    return {'op': 'scale', 'stream': a, 'k': o, 'form': 'scale'}
                if m == 'phase':
                    return {'op': 'set_phase', 'stream': a, 'phase': o}
                if m == 'move':
                    return {'op': 'move_phase', 'stream': a, 'src': o[0], 'dst': o[1]}
                return {'op': 'set_flow', 'stream': a, 'view': 'mol',
                        'key': {'ids': o[0], 'seq': 'tuple', 'phase': None}, 'values': o[1]}
            if k == 5:
                return {'op': 'read_prop', 'stream': b, 'name': t['prop']}
            if k == 6:
                return {'op': 'read_prop', 'stream': a, 'name': t['prop']}
            return None
        if kind == 'link_cycle':
            others = [n for n in sorted(self.streams) if n != a and self.pkg_of[n] == self.pkg_of[a]
                      and self.is_multi(n) == self.is_multi(a)]
            if not others:
                return None
            b = t.setdefault('b', r.choice(others))
            if b not in self.streams:
                return None
            fl_, ph_, tp_ = t['flags']
            pk = self.pk(a)

            def wr(x):
                key = self.gen_key(r, x, for_write=True)
                if key is None:
                    return {'op': 'check_views', 'stream': x}
                n = self.key_width(x, key)
                vals = [r.choice(FLOW_ALPHABET) for _ in range(n)] if n else r.choice(FLOW_ALPHABET)
                return {'op': 'set_flow', 'stream': x, 'view': r.choice(['mol', 'mass', 'vol']), 'key': key,
                        'values': vals}
            seq = [
                lambda: {'op': 'check_views', 'stream': a},
                lambda: {'op': 'link_with', 'stream': a, 'other': b, 'flow': fl_, 'phase': ph_, 'TP': tp_},
                lambda: wr(a),
                lambda: {'op': 'check_views', 'stream': b},
                lambda: {'op': 'set_T', 'stream': b, 'T': r.choice(T_ALPHABET)},
                lambda: {'op': 'check_views', 'stream': a},
                lambda: {'op': 'unlink', 'stream': a},
                lambda: wr(b),
                lambda: {'op': 'check_views', 'stream': a},
                lambda: wr(a),
                lambda: {'op': 'check_views', 'stream': b},
            ]
            if k >= len(seq):
                return None
            return seq[k]()
        return None

    # ------------------------------------------------------------ generation
    def gen(self, rngs):
        if self.tasks is None:
            self.tasks = []
        if rngs.sched.random() < self.cfg.get('task_rate', 0.5):
            while len(self.tasks) < self.cfg.get('n_tasks', 2):
                self.tasks.append(self.new_task(rngs))
            for _ in range(6):
                t = rngs.sched.choice(self.tasks)
                ev = self.task_next(t, rngs)
                if ev is None:
                    self.tasks.remove(t)
                    self.tasks.append(self.new_task(rngs))
                    continue
                ev['task'] = t['kind'] + '#' + t['id']
                reg = self.in_region(ev) if self.pre_fields_ok(ev) else None
                if reg:
                    self.stats['region:' + reg] += 1
                    continue
                if self.pre(ev):
                    return ev
        w = self.cfg['weights']
        ops = [o for o in sorted(w) if w[o] > 0]
        wts = [w[o] for o in ops]
        for _ in range(40):
            op = rngs.sched.choices(ops, wts)[0]
            g = getattr(self, 'gen_' + op, None)
            if g is None:
                continue
            ev = g(rngs.args)
            if ev is None:
                continue
            ev['op'] = op
            reg = self.in_region(ev)
            if reg:
                self.stats['region:' + reg] += 1
                continue
            if not self.pre(ev):
                continue
            if self.cfg['faults'] and op in FAULTABLE and rngs.fault.random() < 0.25:
                ev['fault'] = self.gen_fault(op, rngs.fault)
            return ev
        return {'op': 'noop'}

    def names(self, r, k=1, kind=None, pkgs=None, nonempty=False):
        cands = sorted(self.streams)
        if kind == 'single':
            cands = [n for n in cands if not self.is_multi(n)]
        elif kind == 'multi':
            cands = [n for n in cands if self.is_multi(n)]
        if pkgs is not None:
            cands = [n for n in cands if self.pkg_of[n] in pkgs]
        if nonempty:
            cands = [n for n in cands if not self.streams[n].isempty()]
        if len(cands) < k:
            return None
        return r.sample(cands, k) if k > 1 else [r.choice(cands)]

    def in_region(self, ev):
        if 'C01-multi-copy-flow-phases' in self.regions and self.pre_fields_ok(ev):
            # MultiStream.copy_flow between two multi-phase streams with different phase tuples
            # (reached directly or through a one-inlet mix without energy balance)
            pair = None
            if ev['op'] == 'copy_flow':
                pair = (ev['stream'], ev['other'])
            elif ev['op'] == 'mix_from' and not ev.get('energy_balance'):
                ne = [i for i in ev['inlets'] if not self.streams[i].isempty()]
                if len(ne) == 1:
                    pair = (ev['stream'], ne[0])
            if pair and all(self.is_multi(x) for x in pair) and \
                    tuple(self.streams[pair[0]].phases) != tuple(self.streams[pair[1]].phases):
                return 'C01-multi-copy-flow-phases'
        if ('C12-accessor-relabels-phase' in self.regions and ev['op'] == 'touch_solver'
                and self.pre_fields_ok(ev) and not self.is_multi(ev['stream'])):
            ph = self.streams[ev['stream']].phase
            need = {'vle': 'lLg', 'lle': 'lL', 'sle': 'lLs'}[ev['which']]
            if ph not in need:
                return 'C12-accessor-relabels-phase'
        if 'shared-representation-change' in self.regions:
            for n in self.representation_change_targets(ev):
                if n in self.fgroup and self.partners_not_kept_consistent(n):
                    return 'shared-representation-change'
        return None

    def representation_change_targets(self, ev):
        """streams whose indexer may be rebuilt / whose phase set may be expanded in place by ev"""
        op = ev['op']
        S = self.streams
        if any(ev.get(k) not in S for k in ('stream',) if k in ev):
            return []
        if op in ('set_phases', 'reduce_phases', 'as_stream', 'touch_solver', 'set_data', 'restore_data'):
            return [ev['stream']]
        if op == 'set_phase':
            return [ev['stream']] if self.is_multi(ev['stream']) else []
        if op == 'copy_like':
            a, b = ev['stream'], ev.get('other')
            if b in S and (self.is_multi(a) or self.is_multi(b)):
                return [a]
            return []
        if op in ('mix_from', 'iadd'):
            recv = ev['stream']
            inl = ev['inlets'] if op == 'mix_from' else [ev['stream'], ev['other']]
            if any(i not in S for i in inl):
                return []
            if (self.is_multi(recv) or any(self.is_multi(i) for i in inl) or ev.get('conserve_phases')
                    or ev.get('energy_balance', op == 'iadd')):
                return [recv]
            return []
        if op == 'split_to':
            if ev['s1'] in S and ev['s2'] in S and (self.is_multi(ev['stream']) or self.is_multi(ev['s1'])
                                                     or self.is_multi(ev['s2'])):
                return [ev['s1'], ev['s2']]
            return []
        if op in ('separate_out', 'isub'):
            return [ev['stream']] if ev.get('energy_balance', op == 'isub') else []
        return []

    def gen_fault(self, op, r):
        kind = r.choice(['model_error', 'solver_fail'])
        if kind == 'model_error':
            return {'kind': kind, 'site': r.choice(FAULT_SITES.get(op, ['H', 'Cn', 'V'])),
                    'nth': r.randint(1, 4), 'exc': r.choice(['RuntimeError', 'ValueError', 'FloatingPointError'])}
        f = {'kind': kind, 'site': r.choice(['aitken', 'aitken_secant']), 'nth': 1,
             'exc': r.choice(['RuntimeError', 'InfeasibleRegion'])}
        if r.random() < 0.4:
            f['every'] = True       # the solver keeps failing for the whole operation (retries fail too)
        return f

    # ---- generators of each op kind (arguments only; 'op' is filled by gen) ----
    def rand_flows(self, r, n, sparsity=0.4):
        return [0.0 if r.random() < sparsity else r.choice(FLOW_ALPHABET) for _ in range(n)]

    def gen_key(self, r, name, for_write=False, allow_group=True):
        """A key spec: {'phase': p|None|'...', 'ids': [names]|name|'...'|None}"""
        pk = self.pk(name)
        s = self.streams[name]
        multi = self.is_multi(name)
        names_pool = sorted(pk.names)
        form = r.choice(['id', 'id', 'tuple', 'tuple', 'list', 'group', 'mixed', 'ellipsis', 'phase_only'])
        ids = None
        if form == 'id':
            ids = r.choice(names_pool)
        elif form in ('tuple', 'list'):
            k = r.randint(1, min(4, pk.n))
            chosen = r.sample(range(pk.n), k)
            ids = [r.choice([nm for nm, pos in sorted(pk.names.items()) if pos == c]) for c in chosen]
        elif form == 'group':
            if not pk.groups or not allow_group:
                return None
            ids = r.choice(sorted(pk.groups))
        elif form == 'mixed':
            if not pk.groups or not allow_group:
                return None
            g = r.choice(sorted(pk.groups))
            others = [c for c in range(pk.n) if c not in pk.groups[g]['index']]
            k = r.randint(1, min(2, len(others))) if others else 0
            chosen = r.sample(others, k) if k else []
            ids = [r.choice([nm for nm, pos in sorted(pk.names.items()) if pos == c]) for c in chosen]
            ids.insert(r.randint(0, len(ids)), g)
        elif form == 'ellipsis':
            ids = '...'
        key = {'ids': ids, 'seq': 'list' if form == 'list' else 'tuple'}
        if multi:
            phases = list(s.phases)
            if form == 'phase_only':
                key = {'phase': r.choice(phases), 'ids': None}
            else:
                choice = r.choice(['phase', 'phase', 'none', 'all'])
                if for_write and choice == 'none':
                    choice = 'phase'
                if choice == 'phase':
                    key['phase'] = r.choice(phases)
                elif choice == 'all':
                    key['phase'] = '...'
                else:
                    key['phase'] = None
        else:
            if form == 'phase_only':
                return None
            key['phase'] = None
        return key

    def gen_read_flow(self, r):
        nm = self.names(r)
        if not nm:
            return None
        key = self.gen_key(r, nm[0])
        if key is None:
            return None
        view = r.choice(['mol', 'mol', 'mass', 'vol'])
        ev = {'stream': nm[0], 'view': view, 'key': key}
        if r.random() < 0.4:
            ev['units'] = r.choice(UNITS[view])[0]
        return ev

    def gen_set_flow(self, r):
        nm = self.names(r)
        if not nm:
            return None
        if self.prop == 'C14' and r.random() < 0.12:
            # flows given as mole fractions: a whole-row write whose total is EXACTLY 1.0 (dyadic shares), so that
            # a later write of the same kind changes the composition only
            single = self.names(r, kind='single')
            if single:
                n = self.pk(single[0]).n
                if n >= 2:
                    shares = [0.5, 0.25, 0.125, 0.125][:n] if n >= 4 else ([0.5, 0.25, 0.25][:n] if n == 3 else [0.75, 0.25])
                    vals = shares + [0.0] * (n - len(shares))
                    r.shuffle(vals)
                    return {'stream': single[0], 'view': 'mol', 'key': {'phase': None, 'ids': '...', 'seq': 'tuple'},
                            'values': vals}
        key = self.gen_key(r, nm[0], for_write=True)
        if key is None:
            return None
        view = r.choice(['mol', 'mol', 'mol', 'mass', 'vol'])
        n = self.key_width(nm[0], key)
        if n is None:
            return None
        if n == 0:
            values = r.choice(FLOW_ALPHABET)
        else:
            values = [r.choice(FLOW_ALPHABET) for _ in range(n)] if r.random() < 0.8 else r.choice(FLOW_ALPHABET)
        ev = {'stream': nm[0], 'view': view, 'key': key, 'values': values}
        if r.random() < 0.35:
            ev['units'] = r.choice(UNITS[view])[0]
        return ev

    def gen_read_total(self, r):
        nm = self.names(r)
        view = r.choice(['mol', 'mass', 'vol'])
        ev = {'stream': nm[0], 'view': view}
        if r.random() < 0.4:
            ev['units'] = r.choice(UNITS[view])[0]
            if r.random() < 0.4:
                ev['api'] = 'property'      # get_property('F_mass', units) instead of get_total_flow(units)
        return ev

    def gen_set_total(self, r):
        nm = self.names(r, nonempty=True)
        if not nm:
            return None
        view = r.choice(['mol', 'mass', 'vol'])
        ev = {'stream': nm[0], 'view': view, 'value': r.choice([0.5, 1.0, 2.0, 10.0, 123.0])}
        if r.random() < 0.4:
            ev['units'] = r.choice(UNITS[view])[0]
            if r.random() < 0.4:
                ev['api'] = 'property'      # set_property('F_mass', value, units)
        return ev

    def gen_set_T(self, r):
        return {'stream': self.names(r)[0], 'T': r.choice(T_ALPHABET)}

    def gen_set_P(self, r):
        return {'stream': self.names(r)[0], 'P': r.choice(P_ALPHABET)}

    def gen_scale(self, r):
        return {'stream': self.names(r)[0], 'k': r.choice([0.0, 0.5, 2.0, 3.0, 0.25, 10.0]),
                'form': r.choice(['scale', 'imul', 'itruediv'])}

    gen_imul = gen_scale

    def gen_empty(self, r):
        return {'stream': self.names(r)[0]}

    def gen_reset_thermo(self, r):
        nm = self.names(r, pkgs=['A', 'Ax', 'C', 'Cx'])
        if not nm:
            return None
        cur = self.pkg_of[nm[0]]
        to = {'A': 'Ax', 'Ax': 'A', 'C': 'Cx', 'Cx': 'C'}[cur]
        return {'stream': nm[0], 'to': to}

    def gen_unit_basis(self, r):
        """flows given as mole fractions (total exactly 1.0): write, read a property, write another composition
        with the same total, read again"""
        nm = self.names(r, kind='single')
        if not nm:
            return None
        n = self.pk(nm[0]).n
        if n < 2:
            return None
        shares = [0.5, 0.25, 0.125, 0.125][:n] if n >= 4 else ([0.5, 0.25, 0.25][:n] if n == 3 else [0.75, 0.25])
        a = shares + [0.0] * (n - len(shares))
        b = list(a)
        r.shuffle(a)
        r.shuffle(b)
        return {'stream': nm[0], 'first': a, 'second': b,
                'props': [r.choice(['H', 'S', 'Cn', 'V', 'rho', 'mu', 'kappa', 'h', 'C']) for _ in range(2)]}

    def gen_fault_then_total(self, r):
        """read a total volumetric flow, change T, let ONE property read fail (model error), read the total again"""
        nm = self.names(r, nonempty=True)
        if not nm:
            return None
        return {'stream': nm[0], 'T': r.choice(T_ALPHABET), 'failing': r.choice(['F_vol', 'F_vol', 'V', 'rho']),
                'exc': r.choice(['RuntimeError', 'ValueError', 'FloatingPointError'])}

    def gen_empty_negatives(self, r):
        return {'stream': self.names(r)[0]}

    def gen_read_prop(self, r):
        nm = self.names(r)
        return {'stream': nm[0], 'name': r.choice(PROPERTY_NAMES)}

    def gen_check_views(self, r):
        return {'stream': self.names(r)[0]}

    def gen_set_phase(self, r):
        return {'stream': self.names(r)[0], 'phase': r.choice(PHASES)}

    def gen_set_phases(self, r):
        nm = self.names(r)[0]
        k = r.randint(1, 4)
        return {'stream': nm, 'phases': r.sample(PHASES, k)}

    def gen_reduce_phases(self, r):
        return {'stream': self.names(r)[0]}

    def gen_as_stream(self, r):
        return {'stream': self.names(r)[0]}

    def gen_touch_solver(self, r):
        return {'stream': self.names(r)[0], 'which': r.choice(['vle', 'lle', 'sle'])}

    def gen_copy(self, r):
        if len(self.streams) >= 14:
            return None
        ev = {'stream': self.names(r)[0], 'new': self.new_name('c')}
        if self.prop == 'C13':
            if r.random() < 0.5:
                ev['cv'] = True          # also look at the copy's mass / volumetric views
            if r.random() < 0.3:
                # copy(thermo=...): onto a package that holds the stream's chemicals (in another order)
                cands = [p for p in ('A', 'A2', 'B', 'C') if p != self.pkg_of[ev['stream']]
                         and self.pkg_of[ev['stream']] in universe.SUBPACKAGES.get(p, [])]
                if cands:
                    ev['to_pkg'] = r.choice(cands)
        return ev

    def gen_proxy(self, r):
        if len(self.streams) >= 14:
            return None
        return {'stream': self.names(r)[0], 'new': self.new_name('p')}

    def gen_flow_proxy(self, r):
        if len(self.streams) >= 14:
            return None
        return {'stream': self.names(r)[0], 'new': self.new_name('f')}

    def gen_view(self, r):
        nm = self.names(r, kind='multi')
        if not nm or len(self.streams) >= 14:
            return None
        ph = r.choice(list(self.streams[nm[0]].phases))
        return {'stream': nm[0], 'phase': ph, 'new': self.new_name('v')}

    def gen_copy_like(self, r):
        nm = self.names(r, 2)
        if not nm:
            return None
        ev = {'stream': nm[0], 'other': nm[1]}
        if self.prop == 'C13' and r.random() < 0.5:
            ev['cv'] = True              # mass / volumetric flows are flows too
        return ev

    def gen_link_with(self, r):
        nm = self.names(r, 2)
        if not nm:
            return None
        return {'stream': nm[0], 'other': nm[1], 'flow': r.random() < 0.7, 'phase': r.random() < 0.7,
                'TP': r.random() < 0.7}

    def gen_unlink(self, r):
        return {'stream': self.names(r)[0]}

    def gen_bad_link(self, r):
        """F7 natural error: a single-phase and a multi-phase stream cannot be linked"""
        a, b = self.names(r, kind='single'), self.names(r, kind='multi')
        if not a or not b:
            return None
        a, b = a[0], b[0]
        if r.random() < 0.5:
            a, b = b, a
        return {'stream': a, 'other': b, 'flow': r.random() < 0.7, 'phase': r.random() < 0.7,
                'TP': r.random() < 0.8}

    def gen_bad_alias(self, r):
        """F7 natural error: a name already taken by another chemical cannot become an alias"""
        nm = self.names(r)[0]
        pk = self.pk(nm)
        taken = sorted(k for k in pk.names)
        name = r.choice(taken)
        others = [i for i in pk.ids if pk.pos[i] != pk.names[name]]
        if not others:
            return None
        return {'stream': nm, 'id': r.choice(others), 'alias': name}

    def gen_view_write(self, r):
        nm = self.names(r, kind='multi')
        if not nm:
            return None
        st = self.streams[nm[0]]
        pk = self.pk(nm[0])
        return {'stream': nm[0], 'phase': r.choice(list(st.phases)), 'chem': r.choice(pk.ids),
                'value': r.choice([x for x in FLOW_ALPHABET if x]), 'via': r.choice(['view', 'parent']),
                'basis': r.choice(['mol', 'mol', 'mass']), 'T': r.choice(T_ALPHABET)}

    def gen_save_data(self, r):
        return {'stream': self.names(r)[0], 'slot': f'd{r.randint(0, 2)}'}

    def gen_restore_data(self, r):
        if not self.saved_data:
            return None
        slot = r.choice(sorted(self.saved_data))
        return {'stream': self.saved_data[slot]['stream'], 'slot': slot}

    def gen_copy_thermal_condition(self, r):
        nm = self.names(r, 2)
        return {'stream': nm[0], 'other': nm[1]} if nm else None

    def gen_copy_phase(self, r):
        nm = self.names(r, 2, kind='single')
        return {'stream': nm[0], 'other': nm[1]} if nm else None

    def gen_pickle_obj(self, r):
        return {'what': r.choice(['chemical', 'thermo', 'stream_meta']), 'pkg': r.choice(['A', 'B', 'C']),
                'chem': r.choice(sorted(universe.CHEMICAL_SPECS)), 'price': r.choice([0.0, 0.5, 3.25]),
                'cf': r.choice([None, {'GWP': 1.5}, {'GWP': 2.0, 'FEC': 0.25}]), 'multi': r.random() < 0.5}

    def gen_set_energy(self, r):
        nm = self.names(r, nonempty=True)
        if not nm:
            return None
        return {'stream': nm[0], 'what': r.choice(['H', 'H', 'h', 'S']), 'current': r.random() < 0.25,
                'T_target': r.choice([265.0, 290.0, 305.5, 330.0, 355.25, 380.0, 410.0, 440.0, 470.0])}

    def gen_bad_energy(self, r):
        """F7 natural error: an energy no temperature can reach; the caller catches whatever happens and
        puts the stream back - later operations on any stream must be unaffected"""
        nm = self.names(r, kind='single', nonempty=True)
        if not nm:
            return None
        return {'stream': nm[0], 'what': r.choice(['S', 'S', 'H']), 'sign': r.choice([1.0, 1.0, -1.0])}

    def gen_mix_energy(self, r):
        recv = self.names(r)[0]
        k = r.choice([1, 2, 2, 2, 3, 4])
        pool = sorted(self.streams)
        inlets = [r.choice(pool) for _ in range(k)]
        return {'stream': recv, 'inlets': inlets, 'q': r.choice([0.0, 0.0, 5.0, -5.0, 15.0, -12.5])}

    def gen_separate_energy(self, r):
        nm = self.names(r, 2)
        if not nm:
            return None
        return {'stream': nm[0], 'other': nm[1]}

    def gen_move_phase(self, r):
        nm = self.names(r, kind='multi')
        if not nm:
            return None
        ph = list(self.streams[nm[0]].phases)
        if len(ph) < 2:
            return None
        a, b = r.sample(ph, 2)
        return {'stream': nm[0], 'src': a, 'dst': b}

    def gen_restart(self, r):
        return {'stream': self.names(r)[0]}

    def gen_reset_cache(self, r):
        return {'stream': self.names(r)[0]}

    def gen_churn(self, r):
        nm = self.names(r)[0]
        return {'stream': nm, 'n': r.choice([20, 60, 120, 300, 520, 700]), 'salt': r.randint(0, 10 ** 6)}

    def gen_reuse_key(self, r):
        """the caller keeps ONE list object as its key, edits it in place and uses it again"""
        nm = self.names(r, kind='single')
        if not nm:
            return None
        pk = self.pk(nm[0])
        if pk.n < 3:
            return None
        k = r.randint(2, min(4, pk.n - 1))
        chosen = r.sample(range(pk.n), k)
        by_pos = {}
        for n_, pos in sorted(pk.names.items()):
            by_pos.setdefault(pos, []).append(n_)
        ids = [r.choice(by_pos[c]) for c in chosen]
        other = r.choice([c for c in range(pk.n) if c not in chosen])
        return {'stream': nm[0], 'ids': ids, 'edit': r.choice(['reverse', 'replace', 'append', 'swap']),
                'extra': r.choice(by_pos[other]), 'write': r.random() < 0.4,
                'values': [r.choice(FLOW_ALPHABET) for _ in range(k + 1)]}

    def gen_bad_key(self, r):
        return {'stream': self.names(r)[0], 'key': r.choice(['Unobtainium', 'water ', 'XYZ123'])}

    def gen_bad_units(self, r):
        return {'stream': self.names(r)[0], 'units': r.choice(['K', 'Pa', 'kg', 'm', 'J/hr']),
                'what': r.choice(['get_flow', 'set_flow', 'get_total_flow', 'set_total_flow'])}

    def gen_mix_from(self, r):
        recv = self.names(r)[0]
        k = r.choice([0, 1, 1, 2, 2, 2, 3, 4])
        pool = sorted(self.streams)
        inlets = [r.choice(pool) for _ in range(k)]
        ev = {'stream': recv, 'inlets': inlets, 'energy_balance': r.random() < 0.4,
              'conserve_phases': r.random() < 0.15, 'Q': 0.0}
        form = r.choice(['list', 'list', 'list', 'tuple', 'generator'])
        if form != 'list' and self.prop == 'C01' and not (form == 'generator' and (ev['conserve_phases'] or ev['energy_balance'])):
            # `others : Iterable[Stream]`.  (With conserve_phases, and on the energy-balance fallback path, mix_from
            # iterates `others` a second time - a one-shot iterable is then empty; observed on the unchanged tree
            # and not generated: C01 is about the material balance of the plain path.)
            ev['form'] = form
        return ev

    def gen_sum(self, r):
        if len(self.streams) >= 14:
            return None
        k = r.choice([1, 2, 2, 3])
        pool = sorted(self.streams)
        return {'inlets': [r.choice(pool) for _ in range(k)], 'new': self.new_name('m'),
                'energy_balance': r.random() < 0.3, 'pkg': 'A'}

    def gen_iadd(self, r):
        nm = self.names(r, 2)
        if not nm:
            return None
        return {'stream': nm[0], 'other': nm[1] if r.random() < 0.85 else nm[0]}

    def gen_isub(self, r):
        return self.gen_separate_out(r)

    def gen_separate_out(self, r):
        nm = self.names(r, 2)
        if not nm:
            return None
        return {'stream': nm[0], 'other': nm[1], 'energy_balance': r.random() < 0.3}

    def gen_split_to(self, r):
        nm = self.names(r, 3)
        if not nm:
            return None
        n = self.pk(nm[0]).n
        if r.random() < 0.5:
            split = r.choice([0.0, 0.25, 0.5, 1.0, 0.75])
        else:
            split = [r.choice([0.0, 0.25, 0.5, 1.0, 0.75]) for _ in range(n)]
        return {'stream': nm[0], 's1': nm[1], 's2': nm[2], 'split': split, 'energy_balance': r.random() < 0.5}

    def gen_copy_flow(self, r):
        nm = self.names(r, 2)
        if not nm:
            return None
        pk = self.pk(nm[1])
        mode = r.choice(['all', 'all', 'ids', 'id'])
        ids = '...'
        if mode == 'ids':
            ids = r.sample(pk.ids, r.randint(1, min(3, pk.n)))
        elif mode == 'id':
            ids = r.choice(pk.ids)
        return {'stream': nm[0], 'other': nm[1], 'ids': ids, 'remove': r.random() < 0.5,
                'exclude': r.random() < 0.2}

    # ------------------------------------------------------------ key semantics (harness' own tables)
    def py_key(self, name, key):
        """Build the Python key object passed to the real indexer."""
        ids = key.get('ids')
        if ids == '...':
            k = ...
        elif isinstance(ids, list):
            k = list(ids) if key.get('seq') == 'list' else tuple(ids)
        else:
            k = ids
        ph = key.get('phase')
        if ph is None:
            return k
        phk = ... if ph == '...' else ph
        if ids is None:
            return phk
        return (phk, k)

    def key_positions(self, name, key):
        """-> list of entries; each entry is a list of positions (len>1 for a group) or None for 'all'."""
        pk = self.pk(name)
        ids = key.get('ids')
        if ids is None or ids == '...':
            return None
        items = ids if isinstance(ids, list) else [ids]
        out = []
        for it in items:
            if it in pk.groups:
                out.append(list(pk.groups[it]['index']))
            elif it in pk.names:
                out.append([pk.names[it]])
            else:
                raise KeyError(it)
        return out

    def key_width(self, name, key):
        """number of values a write through this key takes (0 = scalar entry)"""
        ids = key.get('ids')
        pk = self.pk(name)
        if ids is None or ids == '...':
            return pk.n
        if isinstance(ids, list):
            return len(ids)
        return 0

    # ------------------------------------------------------------ preconditions
    def pre_fields_ok(self, ev):
        S = self.streams
        for fld in ('stream', 'other', 's1', 's2'):
            if fld in ev and ev[fld] not in S:
                return False
        if 'inlets' in ev and any(i not in S for i in ev['inlets']):
            return False
        return True

    def pre(self, ev):
        op = ev['op']
        if op == 'noop':
            return True
        S = self.streams
        for fld in ('stream', 'other', 's1', 's2'):
            if fld in ev and ev[fld] not in S:
                return False
        if 'inlets' in ev and any(i not in S for i in ev['inlets']):
            return False
        if 'new' in ev and ev['new'] in S:
            return False
        p = getattr(self, 'pre_' + op, None)
        return True if p is None else bool(p(ev))

    def _key_ok(self, name, key):
        s = self.streams[name]
        multi = self.is_multi(name)
        ph = key.get('phase')
        if not multi and ph is not None:
            return False
        if multi and ph not in (None, '...') and ph not in s.phases:
            return False
        try:
            self.key_positions(name, key)
        except KeyError:
            return False
        return True

    def pre_read_flow(self, ev):
        if not self._key_ok(ev['stream'], ev['key']):
            return False
        return True

    def pre_set_flow(self, ev):
        name = ev['stream']
        key = ev['key']
        if not self._key_ok(name, key):
            return False
        if self.is_multi(name) and key.get('phase') is None:
            return False   # documented: must include the phase to set
        if self.is_view_locked(name) and False:
            return False
        w = self.key_width(name, key)
        v = ev['values']
        if isinstance(v, list) and len(v) != (w if w else 1):
            return False
        if isinstance(v, list) and w == 0:
            return False
        pos = self.key_positions(name, key)
        if pos is not None:
            flat = [p for e in pos for p in e]
            if len(set(flat)) != len(flat):
                return False    # overlapping targets: order-dependent, not a documented use
        if ev['view'] == 'vol':
            if not self.vol_defined(name, key):
                return False
            if pos is not None and any(len(e) > 1 for e in pos):
                return False    # volumetric flow by chemical group is rejected by design
        return True

    def vol_defined(self, name, key=None):
        """molar volume models exist for every chemical of the package in the phases concerned"""
        return True

    def model_locked(self, name):
        """the harness' own account: a per-phase view, a proxy of one, or a stream whose phase was linked to one"""
        return self.meta[name]['origin'] == 'view' or self.pgroup.get(name) in self.locked_pgroups

    def is_view_locked(self, name):
        if self.model_locked(name):
            return True
        if self.prop == 'C13':
            # sharing is the property: only the model decides, so that a copy which wrongly inherits a
            # view's locked phase is still exercised (and fails copy_like / phase assignment)
            return False
        # a stream whose phase was linked to a per-phase view shares the view's LOCKED phase container
        s = self.streams.get(name)
        try:
            from thermosteam._phase import LockedPhase
            return isinstance(getattr(s._imol, '_phase', None), LockedPhase)
        except Exception:
            return False

    def pre_set_total(self, ev):
        s = self.streams[ev['stream']]
        if s.isempty():
            return False
        if any(x < 0 for x in dense(s.imol.data).ravel()):
            return False
        return True

    def pre_set_phase(self, ev):
        if self.pkg_of[ev['stream']] in universe.EOS_PACKAGES and ev.get('phase') != 'g':
            return False
        return not self.is_view_locked(ev['stream'])

    def pre_set_phases(self, ev):
        name = ev['stream']
        if self.is_view_locked(name):
            return False
        proj = self.project(name)
        target = set(ev['phases'])
        # every non-empty phase must be representable (up to case) in the target
        for ph, row in proj.rows.items():
            if row.any():
                if ph not in target and ph.swapcase() not in target:
                    return False
        # two source phases may not collapse onto one label
        dest = {}
        for ph, row in proj.rows.items():
            if not row.any():
                continue
            d = ph if ph in target else ph.swapcase()
            if d in dest:
                return False
            dest[d] = ph
        return True

    def pre_reduce_phases(self, ev):
        return not self.is_view_locked(ev['stream'])

    def pre_as_stream(self, ev):
        name = ev['stream']
        if self.is_view_locked(name):
            return False
        proj = self.project(name)
        nonempty = [ph for ph, row in proj.rows.items() if row.any()]
        return len(nonempty) <= 1

    def pre_touch_solver(self, ev):
        return not self.is_view_locked(ev['stream'])

    def pre_view(self, ev):
        return self.is_multi(ev['stream']) and ev['phase'] in self.streams[ev['stream']].phases

    def pre_copy_like(self, ev):
        a, b = ev['stream'], ev['other']
        if self.prop == 'C13' and self.is_view_locked(a):
            return False
        if a == b or self.is_view_locked(a) and self.is_multi(b):
            return False
        if self.may_share(a, b):
            # copying a stream onto one that is (partly) the same data is not a copy - except between two
            # whole single-phase streams that share their flows (flow proxy / flow-only link): then the
            # phase and T/P still have to be copied
            if not (not self.is_multi(a) and not self.is_multi(b) and self.fgroup[a] == self.fgroup[b]
                    and self.meta[a]['origin'] != 'view' and self.meta[b]['origin'] != 'view'):
                return False
        return self.pkg_of[b] in universe.SUBPACKAGES[self.pkg_of[a]]

    def pre_link_with(self, ev):
        a, b = ev['stream'], ev['other']
        if a == b or self.is_view_locked(a):
            return False
        # a proxy and its original are one indexer object: re-linking one of them has no defined meaning
        # for "proxy shares all flow and thermal data" (flows would follow, T/P would not) - not generated
        if sum(1 for v in self.iclass.values() if v == self.iclass[a]) > 1:
            return False
        if self.pkg_of[a] != self.pkg_of[b]:
            return False
        if self.is_multi(a) != self.is_multi(b):
            return False
        if self.is_multi(a) and ev['flow']:
            # sharing the (phase x chemical) data only makes sense between equal phase tuples
            return tuple(self.streams[a].phases) == tuple(self.streams[b].phases)
        return True

    def pre_reset_thermo(self, ev):
        n = ev['stream']
        cur = self.pkg_of[n]
        if {cur, ev['to']} not in ({'A', 'Ax'}, {'C', 'Cx'}) or cur == ev['to']:
            return False
        if self.is_view_locked(n):
            return False
        # only a stream that shares nothing with another handle (a proxy keeps its own package reference)
        for grp in (self.fgroup, self.tgroup, self.pgroup, self.iclass):
            if sum(1 for v in grp.values() if v == grp[n]) > 1:
                return False
        return not any(m.get('view_of') and m['view_of'][0] == n and not m.get('detached')
                       for m in self.meta.values())

    def pre_unit_basis(self, ev):
        n = ev['stream']
        return (not self.is_multi(n) and len(ev['first']) == self.pk(n).n == len(ev['second'])
                and abs(sum(ev['first']) - 1.0) == 0.0 and abs(sum(ev['second']) - 1.0) == 0.0)

    def pre_bad_link(self, ev):
        a, b = ev['stream'], ev['other']
        if a == b or self.is_view_locked(a) or self.is_view_locked(b):
            return False
        if self.is_multi(a) == self.is_multi(b):
            return False
        return self.pkg_of[a] == self.pkg_of[b]

    def pre_reuse_key(self, ev):
        n = ev['stream']
        if self.is_multi(n):
            return False
        pk = self.pk(n)
        names = list(ev['ids']) + [ev['extra']]
        if any(x not in pk.names for x in names):
            return False
        pos = [pk.names[x] for x in names]
        return len(set(pos)) == len(pos) and len(ev['values']) >= len(names)

    def pre_bad_alias(self, ev):
        pk = self.pk(ev['stream'])
        return ev['alias'] in pk.names and ev['id'] in pk.pos and pk.pos[ev['id']] != pk.names[ev['alias']]

    def pre_view_write(self, ev):
        n = ev['stream']
        return self.is_multi(n) and ev['phase'] in self.streams[n].phases and ev['chem'] in self.pk(n).pos

    def pre_restore_data(self, ev):
        d = self.saved_data.get(ev['slot'])
        return bool(d) and d['stream'] == ev['stream'] and not self.is_view_locked(ev['stream'])

    def pre_copy_phase(self, ev):
        a, b = ev['stream'], ev['other']
        return a != b and not self.is_multi(a) and not self.is_multi(b) and not self.is_view_locked(a)

    def pre_copy_thermal_condition(self, ev):
        return ev['stream'] != ev['other']

    def energy_ok(self, name):
        """inside C02's domain: liquid/gas phases only, T 250-500 K, P 1e4-1e7 Pa, no negative flow"""
        p = self.project(name)
        if not all(ph in ('l', 'g') for ph in p.phases):
            return False
        if p.pkg in universe.EOS_PACKAGES and (p.kind != 'single' or tuple(p.phases) != ('g',)):
            return False        # the equation-of-state package holds gases only
        if not (250.0 <= p.T <= 500.0 and 1e4 <= p.P <= 1e7):
            return False
        return all((row >= 0).all() for row in p.rows.values())

    def pre_set_energy(self, ev):
        n = ev['stream']
        return self.energy_ok(n) and not self.streams[n].isempty()

    def pre_bad_energy(self, ev):
        n = ev['stream']
        return (not self.is_multi(n) and self.energy_ok(n) and not self.streams[n].isempty()
                and not self.is_view_locked(n))

    def pre_mix_energy(self, ev):
        if not self.pre_mix_from({'stream': ev['stream'], 'inlets': ev['inlets']}):
            return False
        names = set(ev['inlets']) | {ev['stream']}
        if not all(self.energy_ok(n) for n in names):
            return False
        return any(not self.streams[i].isempty() for i in ev['inlets'])

    def pre_separate_energy(self, ev):
        if not self.pre_separate_out(ev):
            return False
        a, b = ev['stream'], ev['other']
        if self.may_share(a, b):
            return False
        if not (self.energy_ok(a) and self.energy_ok(b)):
            return False
        pa, pb = self.project(a), self.project(b)
        rest = pa.total() - self.mapped(b, a, pb.total())
        return bool(rest.sum() > 1e-6)

    def pre_move_phase(self, ev):
        n = ev['stream']
        return self.is_multi(n) and ev['src'] in self.streams[n].phases and ev['dst'] in self.streams[n].phases \
            and ev['src'] != ev['dst']

    def pre_unlink(self, ev):
        return not self.is_view_locked(ev['stream'])

    def pre_restart(self, ev):
        return not self.is_view_locked(ev['stream'])

    def pre_mix_from(self, ev):
        recv = ev['stream']
        ok = universe.SUBPACKAGES[self.pkg_of[recv]]
        if any(self.pkg_of[i] not in ok for i in ev['inlets']):
            return False
        if self.is_view_locked(recv) and any(self.is_multi(i) for i in ev['inlets']):
            return False
        if self.is_view_locked(recv) and ev.get('conserve_phases'):
            return False
        if self.is_view_locked(recv) and (self.prop == 'C13' or ev.get('energy_balance') or ev.get('op') in ('mix_energy', None)):
            return False      # a per-phase stream as the receiver of a whole-stream operation that may have to
                              # change its phase representation (energy fallback): not generated
        for i in ev['inlets']:
            # an inlet that is PART of the receiver's own data (a phase view of the receiver, or the receiver is
            # a view of the inlet): the property covers "the receiver is itself one of the inlets", not partial
            # self-aliases
            if i != recv and (self.is_view_locked(i) or self.is_view_locked(recv)) and self.may_share(i, recv):
                return False
        return True

    def pre_sum(self, ev):
        return all(self.pkg_of[i] in universe.SUBPACKAGES[ev['pkg']] for i in ev['inlets'])

    def pre_iadd(self, ev):
        return self.pre_mix_from({'stream': ev['stream'], 'inlets': [ev['stream'], ev['other']]})

    def pre_separate_out(self, ev):
        a, b = ev['stream'], ev['other']
        if a == b:
            return False
        if self.pkg_of[b] not in universe.SUBPACKAGES[self.pkg_of[a]]:
            return False
        # stay inside non-negative flows: the other stream must be contained in this one
        pa, pb = self.project(a), self.project(b)
        if self.is_multi(a):
            for ph, row in pb.rows.items():
                if row.any():
                    if ph not in pa.rows:
                        return False
                    if (pa.rows[ph] - self.mapped(b, a, row) < 0).any():
                        return False
            return True
        return bool((pa.total() - self.mapped(b, a, pb.total()) >= 0).all())

    pre_isub = pre_separate_out

    def pre_split_to(self, ev):
        f, a, b = ev['stream'], ev['s1'], ev['s2']
        if len({f, a, b}) != 3:
            return False
        # outlets must contain the feed's chemicals
        for o in (a, b):
            if self.pkg_of[f] not in universe.SUBPACKAGES[self.pkg_of[o]]:
                return False
        sp = ev['split']
        if isinstance(sp, list) and len(sp) != self.pk(f).n:
            return False
        if (self.is_view_locked(a) or self.is_view_locked(b)) and (self.is_multi(f) or ev['energy_balance']):
            return False
        return True

    def pre_copy_flow(self, ev):
        a, b = ev['stream'], ev['other']
        if a == b:
            return False
        if self.pkg_of[b] not in universe.SUBPACKAGES[self.pkg_of[a]]:
            return False
        ids = ev['ids']
        pkb = self.pk(b)
        if isinstance(ids, list):
            if any(i not in pkb.pos for i in ids) or len(set(ids)) != len(ids):
                return False
        elif ids != '...' and ids not in pkb.pos:
            return False
        return True

    # ------------------------------------------------------------ execution
    def apply(self, ev):
        op = ev['op']
        if op == 'noop':
            return 'noop'
        if not self.pre(ev):
            return 'skip:pre'
        self.stats['op:' + op] += 1
        if op in CORE_OPS.get(self.prop, ()):
            self.stats['mechanism_ops'] += 1
        fn = getattr(self, 'do_' + op)
        snap = None
        if self.prop == 'C13':
            snap = {n: self.project(n) for n in sorted(self.streams)}
            groups = (dict(self.fgroup), dict(self.tgroup), dict(self.pgroup))
        with warnings.catch_warnings():
            warnings.simplefilter('ignore')
            obs = fn(ev)
            if snap is not None:
                self.check_sharing(ev, snap, groups, obs)
        if isinstance(obs, str) and obs.startswith(('exc', 'unsupported')) and obs != 'exc-rejected':
            self.resync_after_failure(ev)
        self.after_step(ev)
        return obs

    # ------------------------------------------------------------ C13: alias-graph refinement
    def written(self, ev):
        """streams an operation is documented to write (flows 'f', T/P 't', phase 'p')"""
        op = ev['op']
        st = ev.get('stream')
        W = {'f': set(), 't': set(), 'p': set()}
        if op in ('set_flow', 'set_total', 'scale', 'imul', 'empty', 'churn', 'empty_negatives', 'reuse_key', 'unit_basis'):
            W['f'].add(st)
        elif op == 'set_T' or op == 'set_P' or op == 'copy_thermal_condition' or op == 'fault_then_total':
            W['t'].add(st)
        elif op == 'move_phase':
            W['f'].add(st)
        elif op in ('set_phase', 'copy_phase'):
            W['p'].add(st)
            W['f'].add(st)
        elif op in ('mix_from', 'iadd', 'separate_out', 'isub', 'copy_like', 'restore_data', 'set_phases',
                    'reduce_phases', 'as_stream', 'touch_solver', 'link_with', 'unlink', 'restart'):
            for k in W:
                W[k].add(st)
        elif op == 'split_to':
            for k in W:
                W[k].update([ev['s1'], ev['s2']])
        elif op == 'copy_flow':
            W['f'].add(st)
            if ev.get('remove'):
                W['f'].add(ev['other'])
        elif op == 'view_write':
            W['f'].add(st)
            W['t'].add(st)
        return W

    def same_proj(self, a, b, flows=True, tp=True, phase=True):
        if phase and (a.kind != b.kind or tuple(a.phases) != tuple(b.phases)):
            return False
        if tp and (a.T != b.T or a.P != b.P):
            return False
        if flows:
            if a.kind == 'single' and b.kind == 'single':
                return close(a.total(), b.total())      # the label is the phase aspect, not the flow aspect
            if set(a.rows) != set(b.rows):
                return False
            return all(close(a.rows[k], b.rows[k]) for k in a.rows)
        return True

    def check_sharing(self, ev, snap, groups, obs):
        if isinstance(obs, str) and (obs.startswith('skip') or obs.startswith('exc') or obs.startswith('unsupported')):
            failed = True
        else:
            failed = False
        fg0, tg0, pg0 = groups
        W = self.written(ev)
        def closure(names, grp, rows=False):
            ids = {grp[n] for n in names if n in grp}
            if rows:
                ids = self.related_groups(ids)
            return {n for n, g in grp.items() if g in ids}
        Wf, Wt, Wp = closure(W['f'], fg0, True), closure(W['t'], tg0), closure(W['p'], pg0)
        for n, before in snap.items():
            if n not in self.streams:
                continue
            now = self.project(n)
            if n not in Wf and not self.same_proj(before, now, flows=True, tp=False, phase=False):
                self.fail('unshared-flow-changed', f'{ev["op"]} on {sorted(W["f"])} changed the flows of {n}, which shares '
                          f'no flow data with it', {'event': ev, 'before': before.to_json(), 'after': now.to_json()})
            if n not in Wt and (before.T != now.T or before.P != now.P):
                self.fail('unshared-TP-changed', f'{ev["op"]} on {sorted(W["t"])} changed T/P of {n}, which shares no '
                          f'thermal condition with it', {'event': ev, 'before': before.to_json(), 'after': now.to_json()})
            if n not in Wp and n not in Wf and tuple(before.phases) != tuple(now.phases):
                self.fail('unshared-phase-changed', f'{ev["op"]} changed the phase(s) of {n}',
                          {'event': ev, 'before': before.to_json(), 'after': now.to_json()})
        if failed:
            return
        # what is advertised as shared must be equal now
        names = sorted(self.streams)
        proj = {n: self.project(n) for n in names}
        for i, a in enumerate(names):
            for b in names[i + 1:]:
                pa, pb = proj[a], proj[b]
                if self.tgroup[a] == self.tgroup[b] and (pa.T != pb.T or pa.P != pb.P):
                    self.fail('shared-TP-differs', f'{a} and {b} share temperature and pressure but read '
                              f'({pa.T},{pa.P}) and ({pb.T},{pb.P})', {'event': ev})
                ok = None
                ga, gb = self.fgroup[a], self.fgroup[b]
                if ga == gb:
                    if pa.kind == pb.kind and (pa.kind == 'single' or tuple(pa.phases) == tuple(pb.phases)):
                        ok = all(close(x, y) for x, y in zip(pa.rows.values(), pb.rows.values()))
                elif ga in self.vparent and self.vparent[ga][0] == gb and pa.kind == 'single' and pb.kind == 'multi':
                    ph = self.vparent[ga][1]
                    if ph in pb.rows:
                        ok = close(pa.rows[pa.phases[0]], pb.rows[ph])
                elif gb in self.vparent and self.vparent[gb][0] == ga and pb.kind == 'single' and pa.kind == 'multi':
                    ph = self.vparent[gb][1]
                    if ph in pa.rows:
                        ok = close(pb.rows[pb.phases[0]], pa.rows[ph])
                if ok is not None:
                    if not ok:
                        self.fail('shared-flow-differs', f'{a} and {b} share flow data but their flows differ',
                                  {'event': ev, a: pa.to_json(), b: pb.to_json()})
                if (self.pgroup[a] == self.pgroup[b] and pa.kind == 'single' and pb.kind == 'single'
                        and pa.phases != pb.phases):
                    self.fail('shared-phase-differs', f'{a} and {b} share the phase but read {pa.phases} and {pb.phases}',
                              {'event': ev})

    def call(self, ev, f):
        """Run the real call with the event's fault plan armed.
        -> ('ok', value) | ('exc', exception, injected: bool)"""
        fault = ev.get('fault')
        with faults.armed(fault) as plan:
            try:
                v = f()
                out = ('ok', v, False)
            except Violation:
                raise
            except (KeyboardInterrupt, SystemExit):
                raise
            except Exception as e:
                out = ('exc', e, bool(plan and plan['fired']))
        if plan is not None and plan['fired']:
            self.stats['fault:' + plan['kind']] += 1
        return out

    def detach_view(self, v):
        """all views of that row keep sharing the (old) row among themselves: they keep their row group,
        which is cut loose from the parent's group"""
        self.meta[v]['detached'] = True
        vg = self.fgroup[v]
        key = self.vparent.pop(vg, None)
        if key is not None and self.vgroups.get(key) == vg:
            del self.vgroups[key]

    def resync_after_failure(self, ev):
        """An operation that RAISED (not a clean refusal) leaves the streams it writes in an unspecified,
        possibly half-modified state - the properties promise nothing about them.  Per-phase views of such a
        stream are re-examined: a view that is no longer the parent's row object has been cut loose."""
        W = self.written(ev)
        names = W['f'] | W['t'] | W['p']
        for v, m in self.meta.items():
            if not (m.get('view_of') and not m.get('detached') and v in self.streams and m['view_of'][0] in names):
                continue
            par, ph = m['view_of']
            live = False
            try:
                P = self.streams[par]
                if self.is_multi(par) and ph in P.phases:
                    live = P._imol.data.rows[P._imol._phase_indexer(ph)] is self.streams[v]._imol.data
            except Exception:
                live = False
            if not live:
                self.stats['view_cut_loose_by_failed_operation'] += 1
                self.detach_view(v)

    def after_step(self, ev):
        """Invariants that hold 'at every moment' for the property under check."""
        # a stream that changed between single- and multi-phase form got a new indexer: it no longer
        # shares a phase container / indexer object with anyone
        for n in list(self.streams):
            k = self.is_multi(n)
            if self.kind_cache.get(n, k) != k:
                self.pgroup[n] = self.new_group()
                self.iclass[n] = self.new_group()
            self.kind_cache[n] = k
        # per-phase views: they follow their parent while it stays multi-phase and keeps their phase;
        # a collapse to single-phase form (or dropping the phase) leaves them on the old rows
        for v, m in self.meta.items():
            if m.get('view_of') and not m.get('detached') and v in self.streams:
                par, ph = m['view_of']
                if par not in self.streams:
                    continue
                if not self.is_multi(par) or ph not in self.streams[par].phases:
                    self.detach_view(v)
                else:
                    self.fgroup[v] = self.view_group(par, ph)
                    self.tgroup[v] = self.tgroup[par]
        if self.prop == 'C11':
            for name in sorted(self.touched):
                if name in self.streams:
                    self.check_views(name, ev)
        self.touched.clear()

    def touch(self, *names):
        for n in names:
            self.touched.add(n)
        # anything that may share data with a touched stream is touched as well
        for n in list(self.touched):
            for m in self.streams:
                if m not in self.touched and self.may_share(n, m):
                    self.touched.add(m)

    def may_share(self, a, b):
        sa, sb = self.streams[a], self.streams[b]
        try:
            if sa._thermal_condition is sb._thermal_condition:
                return True
            return bool(sa.shares_flow_rate_with(sb))
        except Exception:
            return False

    # ---- simple mutators ----
    def do_set_T(self, ev):
        s = self.streams[ev['stream']]
        s.T = ev['T']
        self.touch(ev['stream'])
        return 'ok'

    def do_set_P(self, ev):
        s = self.streams[ev['stream']]
        s.P = ev['P']
        self.touch(ev['stream'])
        return 'ok'

    def do_scale(self, ev):
        name = ev['stream']
        s = self.streams[name]
        before = self.project(name)
        k = ev['k']
        form = ev.get('form', 'scale')
        if form == 'itruediv' and k == 0.0:
            return 'skip:zero'
        if form == 'scale':
            r = self.call(ev, lambda: s.scale(k))
        elif form == 'imul':
            def f():
                x = s
                x *= k
                return x
            r = self.call(ev, f)
        else:
            def f():
                x = s
                x /= k
                return x
            r = self.call(ev, f)
        self.touch(name)
        if r[0] == 'exc':
            return self.unexpected(ev, r, 'scale')
        if form != 'scale' and r[1] is not s:
            self.fail('inplace-identity', f'{form} returned a different object')
        after = self.project(name)
        factor = (1.0 / k) if form == 'itruediv' else k
        if self.prop in ('C01',):
            for ph in before.rows:
                if ph not in after.rows or not close(after.rows[ph], before.rows[ph] * factor):
                    self.fail('scale', f'{name}: flows after {form} by {k} are not {factor} x flows before',
                              {'before': before.to_json(), 'after': after.to_json(), 'event': ev})
        return 'ok'

    do_imul = do_scale

    def do_empty(self, ev):
        name = ev['stream']
        s = self.streams[name]
        s.empty()
        self.touch(name)
        after = self.project(name)
        if any(row.any() for row in after.rows.values()):
            self.fail('empty', f'{name} not empty after empty()')
        return 'ok'

    def unexpected(self, ev, r, what):
        """An operation raised.  Injected faults may make any operation fail (allowed).
        Otherwise the exception is judged differentially by the caller when a twin
        is available; by default it is counted, never a verdict."""
        e = r[1]
        if r[2]:
            self.stats['failed_by_fault:' + ev['op']] += 1
            return f'exc-injected:{type(e).__name__}'
        self.stats[f'exc:{ev["op"]}:{type(e).__name__}'] += 1
        return f'exc:{type(e).__name__}'

    # ---- keyed flow access (C10 / C11) ----
    def indexer_of(self, s, view):
        if view == 'mol':
            return s.imol
        if view == 'mass':
            return s.imass
        return s.ivol

    def view_factors(self, name, proj, phase):
        """per-chemical factor converting kmol/hr to the view's base unit, for one phase row"""
        pk = self.pk(name)
        return pk.MW

    def molar_volumes(self, name, phase, T, P):
        """independent path: each chemical's own V model (m3/mol), None where undefined"""
        pk = self.pk(name)
        out = np.zeros(pk.n)
        ok = np.ones(pk.n, dtype=bool)
        with faults.disarmed():
            for k, cid in enumerate(pk.ids):
                c = universe.chemical(cid)
                try:
                    out[k] = float(c.V(phase, T, P))
                except Exception:
                    try:
                        out[k] = float(c.V(T, P))   # phase-locked chemical
                    except Exception:
                        ok[k] = False
        return out, ok

    def expected_view_rows(self, name, proj, view):
        """dense rows of the requested view computed independently from the molar rows"""
        pk = self.pk(name)
        rows = {}
        undefined = {}
        for ph, mol in proj.rows.items():
            if view == 'mol':
                rows[ph] = mol.copy()
            elif view == 'mass':
                rows[ph] = mol * pk.MW
            else:
                V, ok = self.molar_volumes(name, ph.lower(), proj.T, proj.P)
                rows[ph] = mol * 1000.0 * V
                undefined[ph] = ~ok
        return rows, undefined

    def select(self, name, proj, rows, key):
        """value the key must return, from dense rows (harness' own name table)"""
        pos = self.key_positions(name, key)
        ph = key.get('phase')
        multi = proj.kind == 'multi'

        def pick(row):
            if pos is None:
                return row.copy()
            vals = [sum(row[p] for p in e) for e in pos]
            if not isinstance(key['ids'], list):
                return float(vals[0])
            return np.array(vals, dtype=float)
        if not multi:
            return pick(rows[proj.phases[0]])
        if ph is None:
            return pick(sum(rows[p] for p in proj.phases))
        if ph == '...':
            return np.array([pick(rows[p]) for p in proj.phases])
        return pick(rows[ph])

    def do_read_flow(self, ev):
        name = ev['stream']
        s = self.streams[name]
        proj = self.project(name)
        view = ev['view']
        key = self.py_key(name, ev['key'])
        units = ev.get('units')
        factor = 1.0
        if units:
            factor = dict(UNITS[view])[units]

            def f():
                return s.get_flow(units, key)
        else:
            def f():
                return self.indexer_of(s, view)[key]
        r = self.call(ev, f)
        if r[0] == 'exc':
            return self.judge_lookup_exception(ev, r, proj, f_kind='read')
        got = r[1]
        rows, undefined = self.expected_view_rows(name, proj, view)
        if view == 'vol' and any(u.any() for u in undefined.values()):
            return 'ok-undefined-volume'
        want = self.select(name, proj, rows, ev['key'])
        got_d = dense(got)
        want_d = np.asarray(want, dtype=float) * factor
        rt = 1e-9 if view != 'vol' else 1e-8
        if self.prop in ('C10', 'C11'):
            if not self.same_modulo_shape(got_d, want_d, rt):
                self.fail('read-key' if self.prop == 'C10' else 'read-view',
                          f'{name}.{view}[{ev["key"]}] ({units or "base units"}) returned {got_d.tolist()} '
                          f'but the flow data say {want_d.tolist()}',
                          {'event': ev, 'state': proj.to_json()})
        if self.prop == 'C10':
            self.twin_lookup(ev, proj, got_d)
        return ['ok', [fl(x) for x in np.ravel(got_d)[:8]]]

    def same_modulo_shape(self, a, b, rtol=RTOL):
        a = np.asarray(a, dtype=float)
        b = np.asarray(b, dtype=float)
        if a.size != b.size:
            return False
        return close(a.ravel(), b.ravel(), rtol, ATOL)

    def twin_lookup(self, ev, proj, got_d):
        """history independence: a cold indexer gives the same answer"""
        universe_caches = self.swap_out_lookup_caches(proj.pkg)
        try:
            twin = self.fresh_twin(proj)
            key = self.py_key(ev['stream'], ev['key'])
            units = ev.get('units')
            with faults.disarmed():
                if units:
                    tv = twin.get_flow(units, key)
                else:
                    tv = self.indexer_of(twin, ev['view'])[key]
        finally:
            self.swap_in_lookup_caches(proj.pkg, universe_caches)
        if not self.same_modulo_shape(got_d, dense(tv)):
            self.fail('lookup-history', f'aged indexer returned {got_d.tolist()}, cold indexer {dense(tv).tolist()}',
                      {'event': ev, 'state': proj.to_json()})

    def swap_out_lookup_caches(self, pkg):
        """Give the twin cold lookup caches without disturbing the aged ones."""
        comp = universe.package(pkg).compiled
        saved = (comp._index_cache, dict(tmo_indexer.MaterialIndexer._index_caches))
        comp.__dict__['_index_cache'] = {}
        tmo_indexer.MaterialIndexer._index_caches.clear()
        return saved

    def swap_in_lookup_caches(self, pkg, saved):
        comp = universe.package(pkg).compiled
        comp.__dict__['_index_cache'] = saved[0]
        tmo_indexer.MaterialIndexer._index_caches.clear()
        tmo_indexer.MaterialIndexer._index_caches.update(saved[1])

    def judge_lookup_exception(self, ev, r, proj, f_kind):
        e = r[1]
        if r[2]:
            return self.unexpected(ev, r, f_kind)
        # differential rule: does a cold twin raise the same class?
        saved = self.swap_out_lookup_caches(proj.pkg)
        twin_exc = None
        try:
            twin = self.fresh_twin(proj)
            key = self.py_key(ev['stream'], ev['key'])
            units = ev.get('units')
            with faults.disarmed():
                try:
                    if f_kind == 'read':
                        if units:
                            twin.get_flow(units, key)
                        else:
                            self.indexer_of(twin, ev['view'])[key]
                    else:
                        v = ev['values']
                        v = np.array(v, dtype=float) if isinstance(v, list) else v
                        if units:
                            twin.set_flow(v, units, key)
                        else:
                            self.indexer_of(twin, ev['view'])[key] = v
                except Exception as te:
                    twin_exc = te
        finally:
            self.swap_in_lookup_caches(proj.pkg, saved)
        if twin_exc is not None and type(twin_exc) is type(e):
            self.stats[f'unsupported:{ev["op"]}:{type(e).__name__}'] += 1
            return f'unsupported:{type(e).__name__}'
        if self.prop in ('C10', 'C11'):
            self.fail('lookup-raises-with-history',
                      f'{ev["op"]} {ev["view"]}[{ev["key"]}] raised {type(e).__name__}: {e} on the aged stream, '
                      f'but {"works" if twin_exc is None else "raises " + type(twin_exc).__name__} on a fresh '
                      f'stream in the same state', {'event': ev, 'state': proj.to_json()})
        return self.unexpected(ev, r, f_kind)

    def do_set_flow(self, ev):
        name = ev['stream']
        s = self.streams[name]
        before = self.project(name)
        view = ev['view']
        key = self.py_key(name, ev['key'])
        units = ev.get('units')
        v = ev['values']
        val = np.array(v, dtype=float) if isinstance(v, list) else float(v)
        factor = dict(UNITS[view])[units] if units else 1.0
        if units:
            def f():
                s.set_flow(val, units, key)
        else:
            def f():
                self.indexer_of(s, view)[key] = val
        r = self.call(ev, f)
        self.touch(name)
        if r[0] == 'exc':
            out = self.judge_lookup_exception(ev, r, before, f_kind='write')
            return out
        after = self.project(name)
        if after.phases != before.phases:
            self.fail('write-changed-phases', f'{name}: keyed write changed the phase set')
        # expected molar rows
        base = (val / factor) if units else val
        expect = self.expected_after_write(name, before, view, ev['key'], base)
        if expect is None:
            return 'ok-unchecked'
        if self.prop in ('C10', 'C11'):
            for ph in before.phases:
                if not close(after.rows[ph], expect[ph], 1e-9 if view != 'vol' else 1e-8):
                    self.fail('write-key' if self.prop == 'C10' else 'write-view',
                              f'{name}.{view}[{ev["key"]}] = {v} ({units or "base"}): phase {ph} is '
                              f'{after.rows[ph].tolist()}, expected {expect[ph].tolist()}',
                              {'event': ev, 'before': before.to_json(), 'after': after.to_json()})
        return 'ok'

    def expected_after_write(self, name, before, view, key, base):
        """molar rows after writing `base` (in the view's base unit) through key"""
        pk = self.pk(name)
        pos = self.key_positions(name, key)
        ph = key.get('phase')
        if before.kind == 'single':
            targets = [before.phases[0]]
        elif ph == '...':
            targets = list(before.phases)
        else:
            targets = [ph]
        expect = {p: before.rows[p].copy() for p in before.phases}
        for tp in targets:
            if view == 'mol':
                conv = np.ones(pk.n)
            elif view == 'mass':
                conv = 1.0 / pk.MW
            else:
                V, ok = self.molar_volumes(name, tp.lower(), before.T, before.P)
                if not ok.all() or (V <= 0).any():
                    return None
                conv = 1.0 / (1000.0 * V)
            row = expect[tp]
            if pos is None:
                vals = np.broadcast_to(np.asarray(base, dtype=float), (pk.n,))
                if before.kind == 'multi' and ph == '...' and np.ndim(base) == 2:
                    return None
                row[:] = vals * conv
            else:
                scalar = not isinstance(key['ids'], list)
                for j, e in enumerate(pos):
                    b = float(base) if (scalar or np.ndim(base) == 0) else float(np.asarray(base)[j])
                    if len(e) == 1:
                        row[e[0]] = b * conv[e[0]]
                    else:
                        gname = key['ids'] if scalar else key['ids'][j]
                        g = pk.groups[gname]
                        comp = g['mol_composition'] if view == 'mol' else g['wt_composition']
                        if view == 'vol':
                            return None
                        for q, p_ in enumerate(e):
                            row[p_] = b * comp[q] * conv[p_]
        return expect

    def do_read_total(self, ev):
        name = ev['stream']
        s = self.streams[name]
        proj = self.project(name)
        view = ev['view']
        units = ev.get('units')
        if units:
            if ev.get('api') == 'property':
                r = self.call(ev, lambda: s.get_property('F_' + view, units))
            else:
                r = self.call(ev, lambda: s.get_total_flow(units))
            factor = dict(UNITS[view])[units]
        else:
            r = self.call(ev, lambda: getattr(s, 'F_' + view))
            factor = 1.0
        if r[0] == 'exc':
            return self.unexpected(ev, r, 'read_total')
        rows, undefined = self.expected_view_rows(name, proj, view)
        if view == 'vol':
            for ph in rows:
                if (undefined[ph] & (proj.rows[ph] != 0)).any():
                    return 'ok-undefined-volume'
        want = sum(float(np.sum(x)) for x in rows.values()) * factor
        got = float(r[1])
        if self.prop == 'C11':
            if not close(got, want, RTOL if view != 'vol' else 1e-7):
                self.fail('total', f'{name}: total {view} flow read {got} ({units}), views sum to {want}',
                          {'event': ev, 'state': proj.to_json()})
        return ['ok', fl(got)]

    def do_set_total(self, ev):
        name = ev['stream']
        s = self.streams[name]
        before = self.project(name)
        view = ev['view']
        units = ev.get('units')
        value = ev['value']
        if units:
            if ev.get('api') == 'property':
                r = self.call(ev, lambda: s.set_property('F_' + view, value, units))
            else:
                r = self.call(ev, lambda: s.set_total_flow(value, units))
            factor = dict(UNITS[view])[units]
        else:
            r = self.call(ev, lambda: setattr(s, 'F_' + view, value))
            factor = 1.0
        self.touch(name)
        if r[0] == 'exc':
            return self.unexpected(ev, r, 'set_total')
        after = self.project(name)
        if self.prop == 'C11':
            tb = sum(x.sum() for x in before.rows.values())
            ta = sum(x.sum() for x in after.rows.values())
            for ph in before.phases:
                if tb and ta and not close(after.rows[ph] / ta, before.rows[ph] / tb):
                    self.fail('total-set-composition', f'{name}: composition changed by setting a total flow',
                              {'event': ev, 'before': before.to_json(), 'after': after.to_json()})
            # read-back
            with faults.disarmed():
                back = s.get_total_flow(units) if units else getattr(s, 'F_' + view)
            if not close(back, value, 1e-9):
                self.fail('total-readback', f'{name}: wrote total {value} {units or view}, read back {back}',
                          {'event': ev})
            # the written total against the harness' own conversion table and view arithmetic
            rows, undefined = self.expected_view_rows(name, after, view)
            defined = not any((undefined[ph] & (after.rows[ph] != 0)).any() for ph in rows) if view == 'vol' else True
            if defined:
                want = sum(float(np.sum(x)) for x in rows.values()) * factor
                if not close(want, value, 1e-9 if view != 'vol' else 1e-7):
                    self.fail('total-units', f'{name}: wrote total {value} {units or view}; the flows now amount to '
                              f'{want} in that unit (fixed conversion factor {factor})', {'event': ev})
        return 'ok'

    def do_bad_units(self, ev):
        name = ev['stream']
        s = self.streams[name]
        before = self.project(name)
        what = ev['what']
        u = ev['units']

        def f():
            if what == 'get_flow':
                return s.get_flow(u)
            if what == 'set_flow':
                return s.set_flow(1.0, u, ...)
            if what == 'get_total_flow':
                return s.get_total_flow(u)
            return s.set_total_flow(1.0, u)
        r = self.call(ev, f)
        self.touch(name)
        after = self.project(name)
        if self.prop == 'C11':
            if r[0] == 'ok':
                self.fail('dimension-accepted', f'{what}({u!r}) was accepted although the dimension is inconsistent',
                          {'event': ev})
            for ph in before.phases:
                if ph not in after.rows or not close(after.rows[ph], before.rows[ph]):
                    self.fail('dimension-sideeffect', f'{what}({u!r}) was rejected but changed the flows')
        return 'rejected' if r[0] == 'exc' else 'accepted'

    def do_reset_thermo(self, ev):
        """The hook a unit operation uses to move a stream onto its own property package (here: same
        chemicals object, other mixture rule).  Flows, phases, T and P stay; every property must follow."""
        name = ev['stream']
        s = self.streams[name]
        before = self.project(name)
        thermo = universe.package(ev['to']).thermo
        r = self.call(ev, lambda: s._reset_thermo(thermo))
        self.touch(name)
        if r[0] == 'exc':
            return self.unexpected(ev, r, 'reset_thermo')
        self.pkg_of[name] = ev['to']
        after = self.project(name)
        if not self.same_proj(before, after):
            self.fail('reset-thermo-state', f'{name}: changing the property package changed flows, phases, T or P',
                      {'event': ev, 'before': before.to_json(), 'after': after.to_json()})
        return 'ok'

    def do_unit_basis(self, ev):
        name = ev['stream']
        key = {'phase': None, 'ids': '...', 'seq': 'tuple'}
        out = []
        for vals, pname in ((ev['first'], ev['props'][0]), (ev['second'], ev['props'][1])):
            self.do_set_flow({'op': 'set_flow', 'stream': name, 'view': 'mol', 'key': key, 'values': list(vals)})
            out.append(self.do_read_prop({'op': 'read_prop', 'stream': name, 'name': pname}))
            out.append(self.do_read_prop({'op': 'read_prop', 'stream': name, 'name': 'H'}))
        return ['ok', str(out)[:80]]

    def do_fault_then_total(self, ev):
        name = ev['stream']
        s = self.streams[name]
        out = [self.do_read_total({'op': 'read_total', 'stream': name, 'view': 'vol'})]
        self.do_set_T({'op': 'set_T', 'stream': name, 'T': ev['T']})
        plan = {'kind': 'model_error', 'site': 'V', 'nth': 1, 'exc': ev['exc']}
        with faults.armed(plan) as p_:
            try:
                getattr(s, ev['failing'])
                out.append('returned')
            except Violation:
                raise
            except Exception as e:
                out.append('raised:' + type(e).__name__)
        if p_['fired']:
            self.stats['fault:model_error'] += 1
        out.append(self.do_read_total({'op': 'read_total', 'stream': name, 'view': 'vol'}))
        out.append(self.do_read_total({'op': 'read_total', 'stream': name, 'view': 'vol', 'units': 'L/min'}))
        return ['ok', str(out)[:100]]

    def do_empty_negatives(self, ev):
        """empty_negative_flows(): negative entries become zero, everything else (and every view) stays"""
        name = ev['stream']
        s = self.streams[name]
        before = self.project(name)
        r = self.call(ev, lambda: s.empty_negative_flows())
        self.touch(name)
        if r[0] == 'exc':
            return self.unexpected(ev, r, 'empty_negatives')
        after = self.project(name)
        if self.prop in ('C01', 'C10', 'C11', 'C12'):
            for ph in before.phases:
                want = np.where(before.rows[ph] < 0, 0.0, before.rows[ph])
                if ph not in after.rows or not close(after.rows[ph], want):
                    self.fail('empty-negatives', f'{name}.empty_negative_flows() changed more than the negative entries',
                              {'event': ev, 'before': before.to_json(), 'after': after.to_json()})
        return 'ok'

    def do_reuse_key(self, ev):
        name = ev['stream']
        s = self.streams[name]
        pk = self.pk(name)
        key = list(ev['ids'])                 # ONE list object, kept by the caller
        proj = self.project(name)
        row = proj.rows[proj.phases[0]]

        def expect(lst):
            return np.array([row[pk.names[x]] for x in lst], dtype=float)
        r = self.call(ev, lambda: s.imol[key])
        if r[0] == 'exc':
            return self.judge_lookup_exception(dict(ev, key={'phase': None, 'ids': list(key), 'seq': 'list'}), r, proj,
                                               f_kind='read')
        if not self.same_modulo_shape(dense(r[1]), expect(key)):
            self.fail('read-key', f'{name}.imol[{key}] returned {dense(r[1]).tolist()}, the data say {expect(key).tolist()}',
                      {'event': ev, 'state': proj.to_json()})
        if ev['edit'] == 'reverse':
            key.reverse()
        elif ev['edit'] == 'replace':
            key[0] = ev['extra']
        elif ev['edit'] == 'swap':
            key[0], key[-1] = key[-1], key[0]
        else:
            key.append(ev['extra'])
        if ev.get('write'):
            vals = np.array(ev['values'][:len(key)], dtype=float)
            r2 = self.call(ev, lambda: s.imol.__setitem__(key, vals))
            self.touch(name)
            if r2[0] == 'exc':
                return self.unexpected(ev, r2, 'reuse_key')
            after = self.project(name)
            want = row.copy()
            for x, v in zip(key, vals):
                want[pk.names[x]] = v
            if not close(after.rows[after.phases[0]], want):
                self.fail('write-key', f'{name}.imol[{key}] = {vals.tolist()} (the list object had been used as a key '
                          f'before and was edited in place) gave {after.rows[after.phases[0]].tolist()}, expected '
                          f'{want.tolist()}', {'event': ev, 'state': proj.to_json()})
            return 'ok'
        r2 = self.call(ev, lambda: s.imol[key])
        if r2[0] == 'exc':
            return self.unexpected(ev, r2, 'reuse_key')
        if not self.same_modulo_shape(dense(r2[1]), expect(key)):
            self.fail('read-key', f'{name}.imol[{key}] (the same list object as in the previous lookup, edited in place) '
                      f'returned {dense(r2[1]).tolist()}, the data say {expect(key).tolist()}',
                      {'event': ev, 'state': proj.to_json()})
        return 'ok'

    def do_bad_key(self, ev):
        name = ev['stream']
        s = self.streams[name]
        before = self.project(name)
        r = self.call(ev, lambda: s.imol[ev['key']])
        if self.prop == 'C10':
            if r[0] == 'ok':
                self.fail('unknown-key-accepted', f'unknown key {ev["key"]!r} returned {r[1]!r}')
            after = self.project(name)
            for ph in before.phases:
                if not close(after.rows[ph], before.rows[ph]):
                    self.fail('unknown-key-sideeffect', 'rejected lookup changed the data')
        return 'rejected' if r[0] == 'exc' else 'accepted'

    def do_churn(self, ev):
        """F3 cache pressure: many distinct valid lookups through the stream's indexer."""
        name = ev['stream']
        s = self.streams[name]
        pk = self.pk(name)
        proj = self.project(name)
        import random as _random
        rr = _random.Random(ev['salt'])
        names_by_pos = {}
        for nm, pos in sorted(pk.names.items()):
            names_by_pos.setdefault(pos, []).append(nm)
        multi = proj.kind == 'multi'
        n = ev['n']
        if 'C10-trim-cache' in self.regions and multi:
            n = min(n, 60)
        done = 0
        rows = proj.rows
        for i in range(n):
            k = rr.randint(1, min(5, pk.n))
            chosen = [rr.randrange(pk.n) for _ in range(k)]
            ids = tuple(rr.choice(names_by_pos[c]) for c in chosen)
            if multi:
                ph = rr.choice(list(proj.phases))
                key = (ph, ids)
                want = np.array([rows[ph][c] for c in chosen])
            else:
                key = ids
                want = np.array([rows[proj.phases[0]][c] for c in chosen])
            r = self.call({}, lambda: s.imol[key])
            if r[0] == 'exc':
                if self.prop == 'C10':
                    self.fail('lookup-raises-with-history',
                              f'valid lookup #{i + 1} of a churn raised {type(r[1]).__name__}: {r[1]}',
                              {'event': ev, 'key': repr(key)})
                self.stats['exc:churn'] += 1
                break
            if self.prop == 'C10' and not self.same_modulo_shape(dense(r[1]), want):
                self.fail('read-key', f'churn lookup {key!r} returned {dense(r[1]).tolist()}, data say {want.tolist()}',
                          {'event': ev})
            done += 1
        self.stats['churn_lookups'] += done
        if done > 100:
            self.stats['probe:chemicals_cache_evicted'] += 1
        if done > 500 and multi:
            self.stats['probe:material_cache_trimmed'] += 1
        return ['ok', done]

    # ---- views coherence (C11) ----
    def do_check_views(self, ev):
        if self.prop == 'C11':
            self.check_views(ev['stream'], ev)
        return 'ok'

    def check_views(self, name, ev):
        s = self.streams[name]
        proj = self.project(name)
        pk = self.pk(name)
        with faults.disarmed():
            try:
                mass = s.imass.data
                mass_rows = self.rows_of(mass, proj)
            except Exception as e:
                self.fail('views-raise', f'{name}.imass raised {type(e).__name__}: {e}', {'event': ev})
            for ph in proj.phases:
                if not close(mass_rows[ph], proj.rows[ph] * pk.MW):
                    self.fail('mass-view', f'{name}: mass view of phase {ph} is {mass_rows[ph].tolist()} but '
                              f'mol x MW is {(proj.rows[ph] * pk.MW).tolist()}',
                              {'event': ev, 'state': proj.to_json()})
            fm = float(s.F_mass)
            if not close(fm, sum(float((proj.rows[ph] * pk.MW).sum()) for ph in proj.phases)):
                self.fail('F_mass', f'{name}: F_mass {fm} differs from the sum of mol x MW')
            fmol = float(s.F_mol)
            if not close(fmol, sum(float(proj.rows[ph].sum()) for ph in proj.phases)):
                self.fail('F_mol', f'{name}: F_mol {fmol} differs from the sum of molar flows')
            # volumetric view
            try:
                vol = s.ivol.data
                vol_rows = self.rows_of(vol, proj)
            except Exception:
                self.stats['vol_view_unavailable'] += 1
                return
            tot = 0.0
            all_defined = True
            for ph in proj.phases:
                V, ok = self.molar_volumes(name, ph.lower(), proj.T, proj.P)
                want = proj.rows[ph] * 1000.0 * V
                mask = ok
                if not close(vol_rows[ph][mask], want[mask], 1e-8):
                    self.fail('vol-view', f'{name}: volumetric view of phase {ph} is {vol_rows[ph].tolist()} but '
                              f'mol x 1000 x V_i({ph},{proj.T},{proj.P}) is {want.tolist()}',
                              {'event': ev, 'state': proj.to_json()})
                if (~ok & (proj.rows[ph] != 0)).any():
                    all_defined = False
                tot += float(want[mask].sum())
            if all_defined and (np.array([proj.rows[ph] for ph in proj.phases]) >= 0).all():
                try:
                    fv = float(s.F_vol)
                except Exception:
                    return
                if not close(fv, tot, 1e-8):
                    self.fail('F_vol', f'{name}: F_vol {fv} differs from the sum of the volumetric view {tot}',
                              {'event': ev, 'state': proj.to_json()})

    def rows_of(self, data, proj):
        if proj.kind == 'multi':
            return {ph: dense(data.rows[i]) for i, ph in enumerate(proj.phases)}
        return {proj.phases[0]: dense(data)}

    # ---- property reads (C14) ----
    def do_read_prop(self, ev):
        name = ev['stream']
        s = self.streams[name]
        pname = ev['name']
        r = self.call(ev, lambda: read_property(s, pname))
        proj = self.project(name)
        if r[0] == 'exc' and r[2]:
            return self.unexpected(ev, r, 'read_prop')
        if self.prop != 'C14':
            return 'ok' if r[0] == 'ok' else f'exc:{type(r[1]).__name__}'
        with faults.disarmed():
            twin = self.fresh_twin(proj)
            try:
                tv = read_property(twin, pname)
                texc = None
            except Exception as te:
                tv = None
                texc = te
        if r[0] == 'exc':
            if texc is not None:
                self.stats['both-raise'] += 1
                return 'both-raise'
            self.fail('read-raises', f'{name}.{pname} raised {type(r[1]).__name__}: {r[1]} but a fresh stream in the '
                      f'same state gives {tv!r}', {'event': ev, 'state': proj.to_json()})
        v = r[1]
        if texc is not None:
            self.fail('fresh-raises', f'{name}.{pname} returned {v!r} but a fresh stream in the same state raises '
                      f'{type(texc).__name__}: {texc}', {'event': ev, 'state': proj.to_json()})
        if v is None or tv is None:
            if v is not tv:
                self.fail('stale-property', f'{name}.{pname} is {v!r}, fresh stream gives {tv!r}',
                          {'event': ev, 'state': proj.to_json()})
            return ['ok', None]
        if pname in ARRAY_PROPERTIES:
            with np.errstate(all='ignore'):
                same = v.shape == tv.shape and bool(np.all((np.abs(v - tv) <= 1e-12 + 1e-9 * np.maximum(np.abs(v), np.abs(tv)))
                                                           | (np.isnan(v) & np.isnan(tv))))
            if not same:
                self.fail('stale-property', f'{name}.{pname} returned {v.tolist()!r}; a freshly created stream with the '
                          f'same flows, phases, T and P gives {tv.tolist()!r}', {'event': ev, 'state': proj.to_json()})
            return ['ok', [fl(x) for x in v[:4]]]
        if not close(float(v), float(tv), 1e-9, 1e-12):
            self.fail('stale-property', f'{name}.{pname} returned {float(v)!r}; a freshly created stream with the same '
                      f'flows, phases, T and P gives {float(tv)!r}', {'event': ev, 'state': proj.to_json()})
        return ['ok', fl(v)]

    # ---- phase representation ----
    def do_set_phase(self, ev):
        name = ev['stream']
        s = self.streams[name]
        r = self.call(ev, lambda: setattr(s, 'phase', ev['phase']))
        self.touch(name)
        if r[0] == 'exc':
            return self.unexpected(ev, r, 'set_phase')
        return 'ok'

    def do_set_phases(self, ev):
        name = ev['stream']
        s = self.streams[name]
        before = self.project(name)
        r = self.call(ev, lambda: setattr(s, 'phases', tuple(ev['phases'])))
        self.touch(name)
        if r[0] == 'exc':
            return self.unexpected(ev, r, 'set_phases')
        after = self.project(name)
        if self.prop in ('C01', 'C12'):
            if not close(before.total(), after.total()):
                self.fail('phases-total', f'{name}: per-chemical totals changed by phases={ev["phases"]}',
                          {'before': before.to_json(), 'after': after.to_json()})
        if self.prop == 'C12':
            self.check_conversion(name, ev, before, after, set(ev['phases']))
        return 'ok'

    def check_conversion(self, name, ev, before, after, target=None):
        """T, P unchanged; each phase's material stays under its label (case folding only when the exact
        label is absent from the new representation)"""
        if before.T != after.T or before.P != after.P:
            self.fail('conversion-TP', f'{name}: T/P changed by {ev["op"]}',
                      {'before': before.to_json(), 'after': after.to_json()})
        if target is not None:
            want_kind = 'single' if len(target) == 1 else 'multi'
            if after.kind != want_kind or set(after.phases) != set(target):
                self.fail('conversion-kind', f'{name}: phases={sorted(target)} gave kind {after.kind} with phases '
                          f'{after.phases}', {'event': ev})
        for ph, row in before.rows.items():
            if not row.any():
                continue
            lab = ph if ph in after.rows else ph.swapcase()
            if lab not in after.rows or not close(after.rows[lab], row):
                self.fail('conversion-label', f'{name}: material of phase {ph!r} is not under that label after '
                          f'{ev["op"]}', {'event': ev, 'before': before.to_json(), 'after': after.to_json()})
        for ph, row in after.rows.items():
            if row.any() and not any(b.any() and (p == ph or p.swapcase() == ph) for p, b in before.rows.items()):
                self.fail('conversion-label', f'{name}: phase {ph!r} holds material it did not hold before {ev["op"]}',
                          {'event': ev, 'before': before.to_json(), 'after': after.to_json()})

    def do_reduce_phases(self, ev):
        name = ev['stream']
        s = self.streams[name]
        before = self.project(name)
        r = self.call(ev, lambda: s.reduce_phases())
        self.touch(name)
        if r[0] == 'exc':
            return self.unexpected(ev, r, 'reduce_phases')
        after = self.project(name)
        if self.prop in ('C01', 'C12') and not close(before.total(), after.total()):
            self.fail('phases-total', f'{name}: totals changed by reduce_phases',
                      {'before': before.to_json(), 'after': after.to_json()})
        if self.prop == 'C12':
            if before.T != after.T or before.P != after.P:
                self.fail('conversion-TP', f'{name}: T/P changed by reduce_phases')
            # collapsing to the phases actually present: material keeps its state of aggregation
            for grp in ('g', 'lL', 'sS'):
                b = sum((row for ph, row in before.rows.items() if ph in grp), np.zeros(self.pk(name).n))
                a = sum((row for ph, row in after.rows.items() if ph in grp), np.zeros(self.pk(name).n))
                if not close(a, b):
                    self.fail('reduce-label', f'{name}: reduce_phases moved material between states of aggregation',
                              {'before': before.to_json(), 'after': after.to_json()})
        return 'ok'

    def do_as_stream(self, ev):
        name = ev['stream']
        s = self.streams[name]
        before = self.project(name)
        r = self.call(ev, lambda: s.as_stream())
        self.touch(name)
        if r[0] == 'exc':
            return self.unexpected(ev, r, 'as_stream')
        if self.prop == 'C12':
            after = self.project(name)
            if after.kind != 'single':
                self.fail('as_stream-kind', f'{name}: still multi-phase after as_stream()')
            if not close(before.total(), after.total()):
                self.fail('phases-total', f'{name}: totals changed by as_stream')
            self.check_conversion(name, ev, before, after)
        return 'ok'

    def do_touch_solver(self, ev):
        name = ev['stream']
        s = self.streams[name]
        before = self.project(name)
        r = self.call(ev, lambda: getattr(s, ev['which']))
        self.touch(name)
        if r[0] == 'exc':
            return self.unexpected(ev, r, 'touch_solver')
        after = self.project(name)
        if self.prop in ('C12',):
            if not close(before.total(), after.total()):
                self.fail('accessor-total', f'{name}: totals changed by asking for .{ev["which"]}')
            self.check_conversion(name, ev, before, after)
        return 'ok'

    # ---- structure ----
    def do_copy(self, ev):
        name = ev['stream']
        s = self.streams[name]
        to_pkg = ev.get('to_pkg')
        if to_pkg and self.pkg_of[name] not in universe.SUBPACKAGES.get(to_pkg, []):
            return 'skip:pre'
        if to_pkg:
            thermo = universe.package(to_pkg).thermo
            r = self.call(ev, lambda: s.copy(thermo=thermo))
        else:
            r = self.call(ev, lambda: s.copy())
        if r[0] == 'exc':
            return self.unexpected(ev, r, 'copy')
        self.add_stream(ev['new'], r[1], to_pkg or self.pkg_of[name], 'copy', name)
        if self.prop == 'C13' and to_pkg:
            pa, pb = self.project(name), self.project(ev['new'])
            ok = (pa.kind == pb.kind and tuple(pa.phases) == tuple(pb.phases) and pa.T == pb.T and pa.P == pb.P
                  and all(close(pb.rows[ph], self.mapped(name, ev['new'], pa.rows[ph])) for ph in pa.phases))
            if not ok:
                self.fail('copy-differs', f'{name}.copy(thermo=<{to_pkg}>) differs from the original',
                          {'original': pa.to_json(), 'copy': pb.to_json()})
            # the copy answers by NAME like the original does (its lookups belong to its own package)
            c = r[1]
            src = self.pk(name)
            with faults.disarmed():
                for ph in pa.phases:
                    for k, cid in enumerate(src.ids):
                        key = (ph, cid) if pa.kind == 'multi' else cid
                        try:
                            got = float(c.imol[key])
                        except Exception as e:
                            self.fail('copy-differs', f'{name}.copy(thermo=<{to_pkg}>).imol[{key!r}] raised '
                                      f'{type(e).__name__}: {e}')
                        if not close(np.array([got]), np.array([pa.rows[ph][k]])):
                            self.fail('copy-differs', f'{name}.copy(thermo=<{to_pkg}>).imol[{key!r}] reads {got!r}, the '
                                      f'original holds {float(pa.rows[ph][k])!r}',
                                      {'original': pa.to_json(), 'copy': pb.to_json()})
            if ev.get('cv'):
                self.check_views(ev['new'], ev)
            return 'ok'
        if self.prop == 'C13':
            pa, pb = self.project(name), self.project(ev['new'])
            if not self.same_proj(pa, pb):
                self.fail('copy-differs', f'{name}.copy() differs from the original',
                          {'original': pa.to_json(), 'copy': pb.to_json()})
            if ev.get('cv'):
                self.check_views(ev['new'], ev)
            if pb.kind == 'single':
                # a copy is an ordinary stream of its own: its phase can be re-assigned without touching the original
                c = r[1]
                old = c.phase
                other = 'g' if old != 'g' else 'l'
                with faults.disarmed():
                    try:
                        c.phase = other
                        got = c.phase
                        c.phase = old
                    except Exception as e:
                        self.fail('copy-not-independent', f'the phase of {name}.copy() cannot be assigned: '
                                  f'{type(e).__name__}: {e}')
                if got != other or self.project(name).phases != pa.phases:
                    self.fail('copy-not-independent', f'assigning the phase of {name}.copy() gave {got!r} '
                              f'(original now {self.project(name).phases})')
        return 'ok'

    def do_proxy(self, ev):
        name = ev['stream']
        s = self.streams[name]
        r = self.call(ev, lambda: s.proxy())
        if r[0] == 'exc':
            return self.unexpected(ev, r, 'proxy')
        origin = 'view' if self.is_view_locked(name) else 'proxy'
        self.add_stream(ev['new'], r[1], self.pkg_of[name], origin, name, shares_flow=True, shares_tp=True,
                        shares_phase=True)
        return 'ok'

    def do_flow_proxy(self, ev):
        name = ev['stream']
        s = self.streams[name]
        r = self.call(ev, lambda: s.flow_proxy())
        if r[0] == 'exc':
            return self.unexpected(ev, r, 'flow_proxy')
        origin = 'view' if self.is_view_locked(name) else 'flow_proxy'
        self.add_stream(ev['new'], r[1], self.pkg_of[name], origin, name, shares_flow=True)
        return 'ok'

    def do_view(self, ev):
        name = ev['stream']
        s = self.streams[name]
        r = self.call(ev, lambda: s[ev['phase']])
        if r[0] == 'exc':
            return self.unexpected(ev, r, 'view')
        self.add_stream(ev['new'], r[1], self.pkg_of[name], 'view', name, shares_flow=True, shares_tp=True,
                        view_of=[name, ev['phase']])
        self.locked_pgroups.add(self.pgroup[ev['new']])
        return 'ok'

    def do_copy_like(self, ev):
        a, b = ev['stream'], ev['other']
        sa, sb = self.streams[a], self.streams[b]
        pb0 = self.project(b)
        r = self.call(ev, lambda: sa.copy_like(sb))
        self.touch(a)
        if r[0] == 'exc':
            return self.unexpected(ev, r, 'copy_like')
        if self.is_multi(a) != (self.fgroup_kind.get(a, self.is_multi(a))):
            pass
        self.pgroup[a] = self.pgroup[a]
        if self.prop in ('C13', 'C01'):
            pa, pb = self.project(a), self.project(b)
            if not self.same_proj(pb0, pb):
                self.fail('copy_like-source-changed', f'{a}.copy_like({b}) changed {b}')
            if pa.T != pb.T or pa.P != pb.P:
                self.fail('copy_like-TP', f'{a}.copy_like({b}): T,P ({pa.T},{pa.P}) != ({pb.T},{pb.P})',
                          {'event': ev, 'a': pa.to_json(), 'b': pb.to_json()})
            if not close(pa.total(), self.mapped(b, a, pb.total())):
                self.fail('copy_like-flows', f'{a}.copy_like({b}): totals {pa.total().tolist()} != '
                          f'{self.mapped(b, a, pb.total()).tolist()}', {'event': ev, 'a': pa.to_json(), 'b': pb.to_json()})
            for ph, row in pb.rows.items():
                if row.any():
                    lab = ph if ph in pa.rows else ph.swapcase()
                    if lab not in pa.rows or not close(pa.rows[lab], self.mapped(b, a, row)):
                        self.fail('copy_like-phase', f'{a}.copy_like({b}): material of phase {ph} is not found under '
                                  f'that label', {'event': ev, 'a': pa.to_json(), 'b': pb.to_json()})
            if ev.get('cv') and self.prop == 'C13':
                self.check_views(a, ev)
        return 'ok'

    def do_link_with(self, ev):
        a, b = ev['stream'], ev['other']
        sa, sb = self.streams[a], self.streams[b]
        r = self.call(ev, lambda: sa.link_with(sb, flow=ev['flow'], phase=ev['phase'], TP=ev['TP']))
        self.touch(a, b)
        if r[0] == 'exc':
            return self.unexpected(ev, r, 'link_with')
        if ev['flow']:
            self.fgroup[a] = self.fgroup[b]
        if ev['TP']:
            self.tgroup[a] = self.tgroup[b]
        if ev['phase'] and not self.is_multi(a):
            self.pgroup[a] = self.pgroup[b]
        self.views_follow(a)
        return 'ok'

    def views_follow(self, a):
        """per-phase streams of `a` are views of a's CURRENT data and thermal condition"""
        for n, m in self.meta.items():
            if m.get('view_of') and m['view_of'][0] == a and not m.get('detached') and n in self.streams:
                self.fgroup[n] = self.view_group(a, m['view_of'][1])
                self.tgroup[n] = self.tgroup[a]

    def do_bad_link(self, ev):
        """A link that has to be refused (different stream classes) must leave nothing shared."""
        a, b = ev['stream'], ev['other']
        sa, sb = self.streams[a], self.streams[b]
        r = self.call(ev, lambda: sa.link_with(sb, flow=ev['flow'], phase=ev['phase'], TP=ev['TP']))
        self.touch(a, b)
        if r[0] == 'exc':
            self.stats['bad_link_rejected'] += 1
            return 'exc-rejected'
        # accepted: whatever was selected is now documented to be shared
        self.stats['bad_link_accepted'] += 1
        if ev['flow']:
            self.fgroup[a] = self.fgroup[b]
        if ev['TP']:
            self.tgroup[a] = self.tgroup[b]
        self.views_follow(a)
        return 'ok'

    def do_bad_alias(self, ev):
        """A refused set_alias must not change what any name resolves to (checked by all later lookups)."""
        pk = self.pk(ev['stream'])
        r = self.call(ev, lambda: pk.compiled.set_alias(ev['id'], ev['alias']))
        if r[0] == 'ok':
            self.fail('taken-alias-accepted', f'set_alias({ev["id"]!r}, {ev["alias"]!r}) was accepted although '
                      f'{ev["alias"]!r} already names another chemical')
        self.stats['bad_alias_rejected'] += 1
        s = self.streams[ev['stream']]
        proj = self.project(ev['stream'])
        k = pk.names[ev['alias']]
        r2 = self.call(ev, lambda: s.imol[ev['alias']] if proj.kind == 'single' else s.imol[proj.phases[0], ev['alias']])
        if r2[0] == 'ok':
            want = proj.rows[proj.phases[0]][k]
            if not close(np.array([float(r2[1])]), np.array([want])):
                self.fail('name-repointed', f'after the refused set_alias({ev["id"]!r}, {ev["alias"]!r}) the name '
                          f'{ev["alias"]!r} reads {float(r2[1])!r}, the flow at its position {k} is {want!r}')
        return 'exc-rejected'

    def do_unlink(self, ev):
        a = ev['stream']
        sa = self.streams[a]
        before = self.project(a)
        r = self.call(ev, lambda: sa.unlink())
        self.touch(a)
        if r[0] == 'exc':
            return self.unexpected(ev, r, 'unlink')
        self.fgroup[a] = self.new_group()
        self.tgroup[a] = self.new_group()
        self.pgroup[a] = self.new_group()
        self.iclass[a] = self.new_group()
        self.views_follow(a)
        if self.prop == 'C13':
            after = self.project(a)
            if not self.same_proj(before, after):
                self.fail('unlink-values', f'{a}: unlink changed the values',
                          {'before': before.to_json(), 'after': after.to_json()})
        return 'ok'

    def do_view_write(self, ev):
        """C12: a per-phase sub-stream re-obtained from the parent is a live view in both directions"""
        n = ev['stream']
        ms = self.streams[n]
        ph, chem, val = ev['phase'], ev['chem'], ev['value']
        r = self.call(ev, lambda: ms[ph])
        if r[0] == 'exc':
            return self.unexpected(ev, r, 'view_write')
        v = r[1]
        self.touch(n)
        if ev.get('basis') == 'mass':
            # the same through the mass views of either side (kg/hr), compared in kmol/hr
            MWc = self.pk(n).MW[self.pk(n).pos[chem]]
            if ev['via'] == 'view':
                v.imass[chem] = val * MWc
                got = ms.imol[ph, chem]
            else:
                ms.imol[ph, chem] = val
                got = v.imass[chem] / MWc
        elif ev['via'] == 'view':
            v.imol[chem] = val
            got = ms.imol[ph, chem]
        else:
            ms.imol[ph, chem] = val
            got = v.imol[chem]
        if self.prop == 'C12':
            if not close(float(got), val):
                self.fail('view-not-live', f'{n}[{ph!r}]: wrote {val} to {chem} through the '
                          f'{"view" if ev["via"] == "view" else "parent"}, the other side reads {float(got)}',
                          {'event': ev, 'state': self.project(n).to_json()})
            if ev['via'] == 'view':
                v.T = ev['T']
                if ms.T != ev['T']:
                    self.fail('view-TP-not-shared', f'{n}[{ph!r}].T = {ev["T"]} is not seen by the parent ({ms.T})')
            else:
                ms.T = ev['T']
                if v.T != ev['T']:
                    self.fail('view-TP-not-shared', f'{n}.T = {ev["T"]} is not seen by the {ph!r} view ({v.T})')
            if v.phase != ph:
                self.fail('view-phase', f'{n}[{ph!r}] reports phase {v.phase!r}')
        else:
            (v if ev['via'] == 'view' else ms).T = ev['T']
        return 'ok'

    def do_save_data(self, ev):
        n = ev['stream']
        r = self.call(ev, lambda: self.streams[n].get_data())
        if r[0] == 'exc':
            return self.unexpected(ev, r, 'save_data')
        self.saved_data[ev['slot']] = {'stream': n, 'data': r[1], 'proj': self.project(n)}
        return 'ok'

    def do_restore_data(self, ev):
        n = ev['stream']
        d = self.saved_data[ev['slot']]
        r = self.call(ev, lambda: self.streams[n].set_data(d['data']))
        self.touch(n)
        if r[0] == 'exc':
            return self.unexpected(ev, r, 'restore_data')
        if self.prop in ('C12', 'C13'):
            now = self.project(n)
            want = d['proj']
            ok = (now.T == want.T and now.P == want.P
                  and close(now.total(), want.total())
                  and all(close(now.rows[ph], want.rows[ph]) if ph in now.rows else not want.rows[ph].any()
                          for ph in want.rows)
                  and all(ph in want.rows or not now.rows[ph].any() for ph in now.rows))
            if not ok:
                self.fail('restore', f'{n}: set_data(get_data()) did not reproduce flows/phases/T/P',
                          {'saved': want.to_json(), 'now': now.to_json()})
        return 'ok'

    def do_copy_thermal_condition(self, ev):
        a, b = ev['stream'], ev['other']
        r = self.call(ev, lambda: self.streams[a].copy_thermal_condition(self.streams[b]))
        self.touch(a)
        if r[0] == 'exc':
            return self.unexpected(ev, r, 'copy_thermal_condition')
        if self.prop == 'C13':
            pa, pb = self.project(a), self.project(b)
            if pa.T != pb.T or pa.P != pb.P:
                self.fail('copy-TP', f'{a}.copy_thermal_condition({b}): ({pa.T},{pa.P}) != ({pb.T},{pb.P})')
        return 'ok'

    def do_copy_phase(self, ev):
        a, b = ev['stream'], ev['other']
        r = self.call(ev, lambda: self.streams[a].copy_phase(self.streams[b]))
        self.touch(a)
        if r[0] == 'exc':
            return self.unexpected(ev, r, 'copy_phase')
        if self.prop == 'C13' and self.streams[a].phase != self.streams[b].phase:
            self.fail('copy-phase', f'{a}.copy_phase({b}) left phase {self.streams[a].phase!r}')
        return 'ok'

    def do_pickle_obj(self, ev):
        """C13: pickles of chemicals / property packages / streams with price and factors round-trip"""
        what = ev['what']
        pk = universe.package(ev['pkg'])
        if what == 'chemical':
            c = universe.chemical(ev['chem'])
            with universe.no_compiled_cache_growth():
                r = self.call(ev, lambda: pickle.loads(pickle.dumps(c)))
            if r[0] == 'exc':
                if self.prop == 'C13':
                    self.fail('pickle-raises', f'pickling chemical {ev["chem"]} raised {type(r[1]).__name__}: {r[1]}')
                return 'exc'
            d = r[1]
            if self.prop == 'C13':
                for attr in ('ID', 'CAS', 'MW', 'Tb', 'Tm', 'Hf', 'formula', 'locked_state'):
                    if getattr(c, attr, None) != getattr(d, attr, None):
                        self.fail('pickle-chemical', f'{ev["chem"]}.{attr}: {getattr(c, attr, None)!r} -> '
                                  f'{getattr(d, attr, None)!r} after unpickling')
                ph = CHEM_PHASE.get(ev['chem'], 'l')
                for f in ('H', 'S', 'V', 'Cn'):
                    try:
                        x = getattr(c, f)(ph, 320.0, 101325.0) if f != 'Cn' else c.Cn(ph, 320.0)
                    except Exception:
                        try:
                            x = getattr(c, f)(320.0, 101325.0) if f != 'Cn' else c.Cn(320.0)
                        except Exception:
                            continue
                    try:
                        y = getattr(d, f)(ph, 320.0, 101325.0) if f != 'Cn' else d.Cn(ph, 320.0)
                    except Exception:
                        y = getattr(d, f)(320.0, 101325.0) if f != 'Cn' else d.Cn(320.0)
                    if not close(x, y):
                        self.fail('pickle-chemical', f'{ev["chem"]}.{f} at 320 K: {x} -> {y} after unpickling')
            return 'ok'
        if what == 'thermo':
            th = pk.thermo
            with universe.no_compiled_cache_growth():
                r = self.call(ev, lambda: pickle.loads(pickle.dumps(th)))
            if r[0] == 'exc':
                if self.prop == 'C13':
                    self.fail('pickle-raises', f'pickling Thermo raised {type(r[1]).__name__}: {r[1]}')
                return 'exc'
            d = r[1]
            if self.prop == 'C13':
                if tuple(d.chemicals.IDs) != tuple(th.chemicals.IDs):
                    self.fail('pickle-thermo', 'chemical IDs differ after unpickling')
                z = np.ones(pk.n) / pk.n
                with faults.disarmed():
                    for ph in ('l', 'g'):
                        x, y = th.mixture.H(ph, z, 330.0, 101325.0), d.mixture.H(ph, z, 330.0, 101325.0)
                        if not close(x, y):
                            self.fail('pickle-thermo', f'mixture.H({ph}) {x} -> {y} after unpickling')
            return 'ok'
        # stream with price / characterization factors / ID given at construction
        flows = np.arange(1, pk.n + 1, dtype=float)
        sid = '.' + self.new_name('x')      # an ID that is kept but not entered in the registry
        if ev['multi']:
            st = tmo.MultiStream(sid, phases=('g', 'l'), T=310.0, P=2e5, thermo=pk.thermo, price=ev['price'],
                                 characterization_factors=ev['cf'])
            st.imol['l'] = flows
        else:
            st = tmo.Stream(sid, flow=flows, T=310.0, P=2e5, thermo=pk.thermo, price=ev['price'],
                            characterization_factors=ev['cf'])
        r = self.call(ev, lambda: restart_copy(st))
        if r[0] == 'exc':
            if self.prop == 'C13':
                self.fail('pickle-raises', f'pickling a stream raised {type(r[1]).__name__}: {r[1]}')
            return 'exc'
        d = r[1]
        if self.prop == 'C13':
            if (st.characterization_factors or {}) != (ev['cf'] or {}):
                self.fail('constructor-cf', f'characterization factors given at construction {ev["cf"]} are stored as '
                          f'{st.characterization_factors}')
            if d.price != st.price or d.characterization_factors != st.characterization_factors or d.ID != st.ID:
                self.fail('pickle-stream-meta', f'price/factors/ID: ({st.price},{st.characterization_factors},{st.ID!r}) -> '
                          f'({d.price},{d.characterization_factors},{d.ID!r})')
            if d.T != st.T or d.P != st.P or tuple(d.phases) != tuple(st.phases) or \
                    not close(dense(d.imol.data), dense(st.imol.data)):
                self.fail('pickle-roundtrip', 'unpickled stream differs in flows/phases/T/P')
        return 'ok'

    # ---- energy balance (C02) ----
    def H_indep(self, name, proj=None, T=None):
        """enthalpy flow through the independent path: mixture model on dense rows, never the stream's memo"""
        proj = proj or self.project(name)
        mix = universe.package(proj.pkg).thermo.mixture
        T = proj.T if T is None else T
        with faults.disarmed():
            return float(sum(mix.H(ph, row, T, proj.P) for ph, row in proj.rows.items() if row.any()))

    def S_indep(self, name, proj=None, T=None):
        proj = proj or self.project(name)
        mix = universe.package(proj.pkg).thermo.mixture
        T = proj.T if T is None else T
        with faults.disarmed():
            return float(sum(mix.S(ph, row, T, proj.P) for ph, row in proj.rows.items() if row.any()))

    def C_indep(self, name, proj=None):
        proj = proj or self.project(name)
        mix = universe.package(proj.pkg).thermo.mixture
        with faults.disarmed():
            return float(sum(mix.Cn(ph, row, proj.T, proj.P) for ph, row in proj.rows.items() if row.any()))

    # Calibration (DESIGN 9; tools/calibrate_c02.py, 600 fault-free FRESH-object cases on the unchanged tree,
    # residual in units of the solver resolution C*T_tol with T_tol = 1e-6 K):
    #   H, h assignment, mix, separate_out: max < 1e-3 units   -> bound 100 units (floor)
    #   S assignment:                        max 2.46e3 units   -> bound 2.5e4 units (10 x max)
    K_H = 100.0
    K_S = 2.5e4

    def H_bound(self, C, H):
        return self.K_H * abs(C) * 1e-6 + 1e-9 * abs(H) + 1e-9

    def do_set_energy(self, ev):
        n = ev['stream']
        s = self.streams[n]
        what = ev['what']
        before = self.project(n)
        total = float(sum(r.sum() for r in before.rows.values()))
        if ev['current']:
            with faults.disarmed():
                target = float(getattr(s, what))
            T_expect = before.T
        else:
            T_expect = ev['T_target']
            if what == 'S':
                target = self.S_indep(n, before, T=T_expect)
            else:
                target = self.H_indep(n, before, T=T_expect)
                if what == 'h':
                    target = target / total
        r = self.call(ev, lambda: setattr(s, what, target))
        self.touch(n)
        if r[0] == 'exc':
            return self.unexpected(ev, r, 'set_energy')
        if self.prop != 'C02':
            return 'ok'
        after = self.project(n)
        flipped = tuple(after.phases) != tuple(before.phases)
        if flipped and not ev.get('fault') and what == 'S' and 'C02-S-setter-recovery' in self.regions:
            # listed known finding, identified by its call site: the except-branch of the S setter
            # (the only place that changes the phase) was taken without any injected fault
            self.stats['region:C02-S-setter-recovery'] += 1
            return 'known-finding'
        if ev['current'] and not ev.get('fault') and (flipped or not (250.0 <= after.T <= 500.0)):
            self.fail('same-value-moved-T', f'{n}.{what} assigned its current value moved T from {before.T} to {after.T} '
                      f'and the phase from {before.phases} to {after.phases}',
                      {'event': ev, 'before': before.to_json()})
        if not (250.0 <= after.T <= 500.0) or not all(ph in ('l', 'g') for ph in after.phases):
            self.stats['left_domain'] += 1
            return 'left-domain'
        if self.eos_relabelled(n, after):
            return 'left-domain'
        if not close(after.total(), before.total()):
            self.fail('energy-changed-flows', f'{n}.{what} = ... changed the flows')
        C = self.C_indep(n, after)
        if what == 'S':
            back_i = self.S_indep(n, after)
            bound = self.K_S * abs(C) / after.T * 1e-6 + 1e-9 * abs(target) + 1e-9
        else:
            back_i = self.H_indep(n, after)
            if what == 'h':
                back_i /= total
                bound = self.H_bound(C, target * total) / total
            else:
                bound = self.H_bound(C, target)
        with faults.disarmed():
            back_p = float(getattr(s, what))
        self.note_calibration('set_' + what, abs(back_i - target), (abs(C) * 1e-6 / (after.T if what == 'S' else 1.0)
                                                                    / (total if what == 'h' else 1.0)))
        if abs(back_i - target) > bound or abs(back_p - target) > bound:
            self.fail('readback-' + what, f'{n}.{what} = {target!r}: reading it back gives {back_p!r} through the stream and '
                      f'{back_i!r} through the mixture model (bound {bound:.3g}); T {before.T} -> {after.T}, phases '
                      f'{before.phases} -> {after.phases}', {'event': ev, 'before': before.to_json(), 'after': after.to_json()})
        # "assigning the value it already has leaves the temperature unchanged": H, h exact to 1e-5 K
        # (calibration max 4.6e-13 K); S limited by the noise of the entropy models' numerical integrals
        # (thermo library): calibration max 2.5e-3 K over 7400 fresh cases outside the listed region -> 10x
        dT_same = 0.03 if what == 'S' else 1e-5
        if (ev['current'] and not ev.get('fault') and tuple(after.phases) == tuple(before.phases)
                and abs(after.T - before.T) > dT_same):
            self.fail('same-value-moved-T', f'{n}.{what} assigned its current value moved T from {before.T} to {after.T}',
                      {'event': ev})
        return ['ok', fl(after.T)]

    def do_bad_energy(self, ev):
        n = ev['stream']
        s = self.streams[n]
        before = self.project(n)
        C = max(abs(self.C_indep(n, before)), 1.0)
        value = ev['sign'] * 1e9 * C
        ph0 = before.phases[0]
        with np.errstate(all='ignore'):
            r = self.call(ev, lambda: setattr(s, ev['what'], value))
        self.touch(n)
        self.stats['bad_energy:' + ('raised' if r[0] == 'exc' else 'returned')] += 1
        # the caller's recovery
        with faults.disarmed():
            if s.phase != ph0:
                s.phase = ph0
            s.T = before.T
            s.P = before.P
        return 'exc-rejected' if r[0] == 'exc' else 'accepted'

    def eos_relabelled(self, name, after):
        """The H/S setters' recovery branch (reached through an injected solver fault) relabels a gas of the
        equation-of-state package as liquid: outside that package's domain (gases only).  The caller puts it
        back to a gas at a temperature inside the window; the operation is not judged."""
        if after.pkg not in universe.EOS_PACKAGES or (after.kind == 'single' and tuple(after.phases) == ('g',)):
            return False
        self.stats['left_domain_eos_liquid'] += 1
        s = self.streams[name]
        with faults.disarmed():
            try:
                if after.kind == 'single':
                    s.phase = 'g'
                if not (250.0 <= s.T <= 500.0):
                    s.T = 300.0
            except Exception:
                pass
        self.touch(name)
        return True

    def note_calibration(self, key, resid, unit):
        if unit > 0:
            k = 'cal:' + key
            v = resid / unit
            # keep the maximum in stats as an integer number of 1e-3 solver-resolution units
            self.stats[k] = max(self.stats.get(k, 0), int(v * 1000))

    def do_mix_energy(self, ev):
        recv = ev['stream']
        s = self.streams[recv]
        inlets = ev['inlets']
        snaps = {n: self.project(n) for n in set(inlets)}
        ne = [n for n in inlets if snaps[n].total().any()]
        H_in = sum(self.H_indep(n, snaps[n]) for n in ne)
        C_in = sum(abs(self.C_indep(n, snaps[n])) for n in ne)
        Q = ev['q'] * C_in
        P_min = min(snaps[n].P for n in ne)
        objs = [self.streams[n] for n in inlets]
        r = self.call(ev, lambda: s.mix_from(objs, energy_balance=True, Q=Q))
        self.touch(recv, *inlets)
        if r[0] == 'exc':
            return self.unexpected(ev, r, 'mix_energy')
        if self.prop != 'C02':
            return 'ok'
        after = self.project(recv)
        if self.eos_relabelled(recv, after):
            return 'left-domain'
        outside = not (250.0 <= after.T <= 500.0) or not all(ph in ('l', 'g') for ph in after.phases)
        if outside:
            # the result left the stated window (too much / too little heat for the receiver's phase).  The
            # property's relation is still judged when the models can be evaluated there: a call that
            # returns normally must have put the inlets' enthalpy into the receiver, wherever T ended up
            self.stats['left_domain'] += 1
            try:
                with np.errstate(all='ignore'):
                    h_probe = self.H_indep(recv, after)
                if not np.isfinite(h_probe) or after.T <= 0 and False:
                    return 'left-domain'
            except Exception:
                return 'left-domain'
        want = np.zeros(self.pk(recv).n)
        for n in inlets:
            want = want + self.mapped(n, recv, snaps[n].total())
        if not close(after.total(), want):
            self.stats['mix_energy_material_mismatch'] += 1
            return 'material-mismatch'      # C01's subject; the energy clause is not judged on other material
        try:
            with np.errstate(all='ignore'):
                H_out = self.H_indep(recv, after)
                C = self.C_indep(recv, after)
        except Exception:
            return 'left-domain'
        if not (np.isfinite(H_out) and np.isfinite(C)):
            return 'left-domain'
        bound = self.H_bound(C, H_in + Q)
        if outside:
            bound = max(bound, 1e-6 * (abs(H_in + Q) + abs(H_out)))     # extrapolated models: looser, still tight
        self.note_calibration('mix', abs(H_out - (H_in + Q)), abs(C) * 1e-6)
        if abs(H_out - (H_in + Q)) > bound:
            self.fail('mix-enthalpy', f'{recv}.mix_from({inlets}, Q={Q!r}): enthalpy flow after is {H_out!r}, inlets + Q '
                      f'give {H_in + Q!r} (difference {H_out - H_in - Q:.6g} kJ/hr, bound {bound:.3g}); T={after.T}',
                      {'event': ev, 'inlets': {n: snaps[n].to_json() for n in snaps}, 'after': after.to_json()})
        if len(ne) >= 1 and after.P != P_min and len(ne) > 1:
            self.fail('mix-pressure', f'{recv}.mix_from({inlets}): P = {after.P}, lowest inlet pressure is {P_min}',
                      {'event': ev})
        return ['ok', fl(after.T)]

    def do_separate_energy(self, ev):
        a, b = ev['stream'], ev['other']
        sa, sb = self.streams[a], self.streams[b]
        pa, pb = self.project(a), self.project(b)
        Ha, Hb = self.H_indep(a, pa), self.H_indep(b, pb)
        r = self.call(ev, lambda: sa.separate_out(sb, energy_balance=True))
        self.touch(a, b)
        if r[0] == 'exc':
            return self.unexpected(ev, r, 'separate_energy')
        if self.prop != 'C02':
            return 'ok'
        after = self.project(a)
        if self.eos_relabelled(a, after):
            return 'left-domain'
        if not (250.0 <= after.T <= 500.0) or not all(ph in ('l', 'g') for ph in after.phases):
            self.stats['left_domain'] += 1
            return 'left-domain'
        if not close(after.total(), pa.total() - self.mapped(b, a, pb.total()), RTOL, 1e-9):
            return 'material-mismatch'
        H_out = self.H_indep(a, after)
        C = self.C_indep(a, after)
        bound = self.H_bound(C, Ha - Hb) + 1e-9 * (abs(Ha) + abs(Hb))
        self.note_calibration('separate', abs(H_out - (Ha - Hb)), abs(C) * 1e-6)
        if abs(H_out - (Ha - Hb)) > bound:
            self.fail('separate-enthalpy', f'{a}.separate_out({b}): enthalpy flow after is {H_out!r}, difference of the '
                      f'enthalpies is {Ha - Hb!r}', {'event': ev, 'a': pa.to_json(), 'b': pb.to_json(),
                                                     'after': after.to_json()})
        return ['ok', fl(after.T)]

    def do_move_phase(self, ev):
        """all material of one phase row is moved into another row by two keyed writes (public API)"""
        n = ev['stream']
        s_ = self.streams[n]
        before = self.project(n)
        moved = before.rows[ev['dst']] + before.rows[ev['src']]
        r = self.call(ev, lambda: (s_.imol.__setitem__(ev['dst'], moved), s_.imol.__setitem__(ev['src'], 0.)))
        self.touch(n)
        if r[0] == 'exc':
            return self.unexpected(ev, r, 'move_phase')
        after = self.project(n)
        if self.prop in ('C01', 'C10', 'C12') and not close(after.total(), before.total()):
            self.fail('move-phase-total', f'{n}: totals changed by moving phase {ev["src"]} into {ev["dst"]}')
        return 'ok'

    def do_restart(self, ev):
        """F4: only pickled state survives."""
        a = ev['stream']
        sa = self.streams[a]
        before = self.project(a)
        r = self.call(ev, lambda: restart_copy(sa))
        if r[0] == 'exc':
            return self.unexpected(ev, r, 'restart')
        self.streams[a] = r[1]
        self.fgroup[a] = self.new_group()
        self.tgroup[a] = self.new_group()
        self.pgroup[a] = self.new_group()
        self.iclass[a] = self.new_group()
        for n, m in self.meta.items():
            if m.get('view_of') and m['view_of'][0] == a:
                m['detached'] = True    # a view of the object that was replaced: keeps sharing the OLD data
        if self.meta[a]['origin'] != 'initial':
            self.meta[a] = {'origin': 'restart'}
        self.touch(a)
        self.stats['fault:restart'] += 1
        after = self.project(a)
        if self.prop in ('C01', 'C13', 'C12'):
            if before.phases != after.phases or any(not close(before.rows[p], after.rows[p]) for p in before.phases) \
                    or before.T != after.T or before.P != after.P:
                self.fail('pickle-roundtrip', f'{a}: unpickled stream differs',
                          {'before': before.to_json(), 'after': after.to_json()})
        return 'ok'

    def do_reset_cache(self, ev):
        a = ev['stream']
        self.streams[a].reset_cache()
        self.touch(a)
        return 'ok'

    # ---- mixing / splitting (C01) ----
    def mapped(self, src_name, dst_name, row):
        """row of src package -> row in dst package order"""
        src, dst = self.pk(src_name), self.pk(dst_name)
        out = np.zeros(dst.n)
        for k, cid in enumerate(src.ids):
            out[dst.pos[cid]] = row[k]
        return out

    def do_mix_from(self, ev):
        recv = ev['stream']
        s = self.streams[recv]
        inlets = ev['inlets']
        snaps = {n: self.project(n) for n in set(inlets)}
        before = self.project(recv)
        objs = [self.streams[n] for n in inlets]
        if ev.get('form') == 'tuple':
            objs = tuple(objs)
        elif ev.get('form') == 'generator':
            objs = (i for i in list(objs))
        eb = ev['energy_balance']
        r = self.call(ev, lambda: s.mix_from(objs, energy_balance=eb, Q=ev.get('Q', 0.0),
                                             conserve_phases=ev.get('conserve_phases', False)))
        self.touch(recv, *inlets)
        if r[0] == 'exc':
            return self.judge_mix_exception(ev, r, before, snaps)
        if self.prop == 'C01':
            after = self.project(recv)
            want = np.zeros(self.pk(recv).n)
            for n in inlets:
                want = want + self.mapped(n, recv, snaps[n].total())
            got = after.total()
            if not close(got, want):
                self.fail('mix-total', f'{recv}.mix_from({inlets}): per-chemical totals are {got.tolist()}, the inlets '
                          f'sum to {want.tolist()}',
                          {'event': ev, 'inlets': {n: snaps[n].to_json() for n in snaps}, 'after': after.to_json()})
            # inlets are never written by mix_from (unless they share data with the receiver)
            for n in set(inlets):
                if n != recv and not self.may_share(n, recv):
                    now = self.project(n)
                    if not close(now.total(), snaps[n].total()):
                        self.fail('mix-inlet-changed', f'inlet {n} changed during {recv}.mix_from',
                                  {'event': ev})
        return 'ok'

    def judge_mix_exception(self, ev, r, before, snaps):
        if r[2]:
            return self.unexpected(ev, r, 'mix')
        e = r[1]
        # differential: same operation on fresh twins
        twins = {n: self.fresh_twin(p) for n, p in snaps.items()}
        recv = ev['stream']
        trecv = twins[recv] if recv in twins else self.fresh_twin(before)
        texc = None
        with faults.disarmed():
            try:
                trecv.mix_from([twins[n] for n in ev['inlets']], energy_balance=ev['energy_balance'],
                               Q=ev.get('Q', 0.0), conserve_phases=ev.get('conserve_phases', False))
            except Exception as te:
                texc = te
        if texc is not None and type(texc) is type(e):
            self.stats[f'unsupported:mix_from:{type(e).__name__}'] += 1
            return f'unsupported:{type(e).__name__}'
        if self.is_view_locked(recv) or any(self.is_view_locked(i) for i in ev['inlets']):
            # a per-phase view has a locked phase; its fresh twin is an ordinary stream, so the
            # differential comparison does not apply
            self.stats[f'unsupported:mix_from_view:{type(e).__name__}'] += 1
            return f'unsupported:{type(e).__name__}'
        if self.prop == 'C01':
            self.fail('mix-raises-with-history', f'mix_from raised {type(e).__name__}: {e} on aged streams but '
                      f'{"works" if texc is None else "raises " + type(texc).__name__} on fresh streams in the same state',
                      {'event': ev, 'receiver': before.to_json(), 'inlets': {n: snaps[n].to_json() for n in snaps}})
        return self.unexpected(ev, r, 'mix')

    def do_sum(self, ev):
        inlets = ev['inlets']
        snaps = {n: self.project(n) for n in set(inlets)}
        objs = [self.streams[n] for n in inlets]
        pk = universe.package(ev['pkg'])
        r = self.call(ev, lambda: tmo.Stream.sum(objs, None, pk.thermo, energy_balance=ev['energy_balance']))
        if r[0] == 'exc':
            self.stats[f'exc:sum:{type(r[1]).__name__}'] += 1
            return self.unexpected(ev, r, 'sum')
        self.add_stream(ev['new'], r[1], ev['pkg'], 'sum')
        if self.prop == 'C01':
            after = self.project(ev['new'])
            want = np.zeros(pk.n)
            for n in inlets:
                want = want + self.mapped(n, ev['new'], snaps[n].total())
            if not close(after.total(), want):
                self.fail('sum-total', f'Stream.sum({inlets}) totals {after.total().tolist()} != {want.tolist()}',
                          {'event': ev, 'inlets': {n: snaps[n].to_json() for n in snaps}})
        return 'ok'

    def do_iadd(self, ev):
        a, b = ev['stream'], ev['other']
        sa, sb = self.streams[a], self.streams[b]
        pa, pb = self.project(a), self.project(b)

        def f():
            x = sa
            x += sb
            return x
        r = self.call(ev, f)
        self.touch(a, b)
        if r[0] == 'exc':
            return self.unexpected(ev, r, 'iadd')
        if self.prop == 'C01':
            after = self.project(a)
            want = pa.total() + self.mapped(b, a, pb.total())
            if not close(after.total(), want):
                self.fail('iadd-total', f'{a} += {b}: totals {after.total().tolist()} != {want.tolist()}',
                          {'event': ev, 'a': pa.to_json(), 'b': pb.to_json()})
        return 'ok'

    def do_separate_out(self, ev):
        a, b = ev['stream'], ev['other']
        sa, sb = self.streams[a], self.streams[b]
        pa, pb = self.project(a), self.project(b)
        shared = self.may_share(a, b)
        if ev['op'] == 'isub':
            def f():
                x = sa
                x -= sb
                return x
        else:
            def f():
                return sa.separate_out(sb, energy_balance=ev.get('energy_balance', False))
        r = self.call(ev, f)
        self.touch(a, b)
        if r[0] == 'exc':
            return self.unexpected(ev, r, 'separate_out')
        if self.prop == 'C01' and not shared:
            after = self.project(a)
            want = pa.total() - self.mapped(b, a, pb.total())
            if not close(after.total(), want, RTOL, 1e-9):
                self.fail('separate-total', f'{a}.separate_out({b}): totals {after.total().tolist()} != '
                          f'{want.tolist()}', {'event': ev, 'a': pa.to_json(), 'b': pb.to_json()})
        return 'ok'

    do_isub = do_separate_out

    def do_split_to(self, ev):
        f_, a, b = ev['stream'], ev['s1'], ev['s2']
        sf, sa, sb = self.streams[f_], self.streams[a], self.streams[b]
        pf = self.project(f_)
        shared = self.may_share(f_, a) or self.may_share(f_, b) or self.may_share(a, b)
        split = ev['split']
        sp = np.array(split, dtype=float) if isinstance(split, list) else float(split)
        r = self.call(ev, lambda: sf.split_to(sa, sb, sp, energy_balance=ev['energy_balance']))
        self.touch(f_, a, b)
        if r[0] == 'exc':
            return self.judge_split_exception(ev, r, pf)
        if self.prop == 'C01' and not shared:
            ta = self.project(a).total()
            tb = self.project(b).total()
            tf = pf.total()
            wa = self.mapped(f_, a, tf * sp)
            wb = self.mapped(f_, b, tf - tf * sp)
            if not close(ta, wa) or not close(tb, wb):
                self.fail('split', f'{f_}.split_to({a},{b},{split}): outlets {ta.tolist()} / {tb.tolist()}, expected '
                          f'{wa.tolist()} / {wb.tolist()}', {'event': ev, 'feed': pf.to_json()})
            now = self.project(f_)
            if not close(now.total(), tf):
                self.fail('split-feed-changed', f'feed {f_} changed by split_to')
        return 'ok'

    def judge_split_exception(self, ev, r, pf):
        if r[2]:
            return self.unexpected(ev, r, 'split')
        e = r[1]
        f_, a, b = ev['stream'], ev['s1'], ev['s2']
        tf = self.fresh_twin(pf)
        ta = self.fresh_twin(self.project(a))
        tb = self.fresh_twin(self.project(b))
        split = ev['split']
        sp = np.array(split, dtype=float) if isinstance(split, list) else float(split)
        texc = None
        with faults.disarmed():
            try:
                tf.split_to(ta, tb, sp, energy_balance=ev['energy_balance'])
            except Exception as te:
                texc = te
        if texc is not None and type(texc) is type(e):
            self.stats[f'unsupported:split_to:{type(e).__name__}'] += 1
            return f'unsupported:{type(e).__name__}'
        return self.unexpected(ev, r, 'split')

    def do_copy_flow(self, ev):
        a, b = ev['stream'], ev['other']
        sa, sb = self.streams[a], self.streams[b]
        pa, pb = self.project(a), self.project(b)
        shared = self.may_share(a, b)
        ids = ev['ids']
        IDs = ... if ids == '...' else (tuple(ids) if isinstance(ids, list) else ids)
        r = self.call(ev, lambda: sa.copy_flow(sb, IDs=IDs, remove=ev['remove'], exclude=ev['exclude']))
        self.touch(a, b)
        if r[0] == 'exc':
            return self.unexpected(ev, r, 'copy_flow')
        if self.prop == 'C01' and not shared:
            pkb = self.pk(b)
            if ids == '...':
                sel = np.ones(pkb.n, dtype=bool)
                if ev['exclude']:
                    return 'ok'  # documented: nothing happens
            else:
                sel = np.zeros(pkb.n, dtype=bool)
                for i in (ids if isinstance(ids, list) else [ids]):
                    sel[pkb.pos[i]] = True
                if ev['exclude']:
                    sel = ~sel
            na, nb = self.project(a), self.project(b)
            tb = pb.total()
            # source: what was selected leaves it iff remove, everything else stays
            want_b = np.where(sel, 0.0, tb) if ev['remove'] else tb
            if not close(nb.total(), want_b):
                self.fail('copy_flow-source', f'{a}.copy_flow({b},{ids},remove={ev["remove"]},exclude={ev["exclude"]}): '
                          f'source totals {nb.total().tolist()} expected {want_b.tolist()}',
                          {'event': ev, 'a': pa.to_json(), 'b': pb.to_json()})
            # receiver: the selected material arrives unchanged ("neither duplicates nor loses").
            # Entries that were not selected are not constrained by the property.  For a multi-phase
            # receiver the comparison is made on the rows the source material is documented to land in.
            sel_a = self.mapped(b, a, sel.astype(float)) > 0
            if na.kind == 'single':
                got = na.total()
                want = self.mapped(b, a, np.where(sel, tb, 0.0))
            elif pb.kind == 'single':
                ph = pb.phases[0]
                if ph not in na.rows:
                    return 'ok-unchecked'
                got = na.rows[ph]
                want = self.mapped(b, a, np.where(sel, pb.rows[ph], 0.0))
            elif tuple(pb.phases) == tuple(na.phases):
                got = na.total()
                want = self.mapped(b, a, np.where(sel, tb, 0.0))
            else:
                return 'ok-unchecked'
            if not close(got[sel_a], want[sel_a]):
                self.fail('copy_flow-receiver', f'{a}.copy_flow({b},{ids},remove={ev["remove"]},exclude={ev["exclude"]}): '
                          f'receiver has {got.tolist()} where the source supplied {want.tolist()}',
                          {'event': ev, 'a': pa.to_json(), 'b': pb.to_json()})
        return 'ok'

    # ------------------------------------------------------------ measures
    def abstract_state(self):
        out = []
        for name in sorted(self.streams):
            s = self.streams[name]
            try:
                multi = isinstance(s, tmo.MultiStream)
                phases = tuple(s.phases)
                data = s.imol.data
                if multi:
                    pattern = tuple(bool(data.rows[i].dct) for i in range(len(phases)))
                else:
                    pattern = (bool(data.dct),)
                warm = bool(s._property_cache)
                cache = tuple(sorted(str(k) for k in s._imol._data_cache))
                out.append((self.meta[name]['origin'], multi, phases, pattern, warm, cache))
            except Exception:
                out.append((name, 'err'))
        return out

    def shared_touch(self, ev):
        n = ev.get('stream')
        if n in self.fgroup and self.group_size(n) > 1:
            return [ev.get('task', '-').split('#')[0], ev.get('op')]
        return None

    def finish(self):
        if self.prop == 'C11':
            for name in sorted(self.streams):
                self.check_views(name, {'op': 'finish'})


class _Pickler(pickle.Pickler):
    """A flowsheet is saved as a whole: property packages keep their identity."""

    def persistent_id(self, obj):
        if isinstance(obj, tmo.Thermo):
            for pid in universe.PACKAGES:
                if universe.package(pid).thermo is obj:
                    return ('thermo', pid)
        return None


class _Unpickler(pickle.Unpickler):
    def persistent_load(self, pid):
        return universe.package(pid[1]).thermo


def restart_copy(obj):
    import io
    buf = io.BytesIO()
    _Pickler(buf, protocol=pickle.HIGHEST_PROTOCOL).dump(obj)
    buf.seek(0)
    with universe.no_compiled_cache_growth():
        return _Unpickler(buf).load()


FAULTABLE = {'set_energy', 'mix_energy', 'separate_energy', 'read_prop', 'mix_from', 'set_total', 'read_total', 'set_flow', 'read_flow', 'sum', 'separate_out'}
FAULT_SITES = {
    'set_energy': ['H', 'S', 'Cn'], 'mix_energy': ['H', 'Cn'], 'separate_energy': ['H', 'Cn'],
    'read_prop': ['H', 'S', 'Cn', 'V', 'mu', 'kappa'],
    'mix_from': ['H', 'Cn'], 'sum': ['H', 'Cn'], 'separate_out': ['H', 'Cn'],
    'set_total': ['V'], 'read_total': ['V'], 'set_flow': ['V'], 'read_flow': ['V'],
}


def simplify_event(ev):
    out = []
    if ev.get('op') == 'churn' and ev['n'] > 20:
        for n in (20, 120, 520):
            if n < ev['n']:
                e = dict(ev)
                e['n'] = n
                out.append(e)
    if ev.get('op') == 'mix_from' and len(ev['inlets']) > 1:
        for i in range(len(ev['inlets'])):
            e = dict(ev)
            e['inlets'] = ev['inlets'][:i] + ev['inlets'][i + 1:]
            out.append(e)
    return out
