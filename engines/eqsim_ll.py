"""eqsim_ll: bubble / dew points (C08) and liquid-liquid / solid-liquid equilibrium (C15).

Real code: thermosteam.equilibrium (BubblePoint, DewPoint, LLE, SLE, activity / fugacity /
Poynting models), Stream / MultiStream accessors.  Real but wrapped (pass-through unless a
fault plan is armed for ONE operation): flexsolve solvers (seam S3 of sim/faults.py), and -
installed by this engine on the objects of its OWN packages only - `Chemical._Psat`
(PsatSeam) and the `gamma` slot of the cached BubblePoint instances (faults.ModelSeam).
Stubs: unit operations (tasks issuing the calls), scheduler.

C08  What the simulation adds is the RECOVERY path: BubblePoint/DewPoint instances are
     process-global, cached per (chemicals, Gamma, Phi, PCF), shared by every stream and keep
     no state between calls (slots hold only models and bounds), so there is no history
     dimension.  The fault batch makes the primary secant solver / a model raise so that
     solve_Ty/Py/Tx/Px run their IQ_interpolation fallback; the oracle demands the same defining
     equations whenever the call returns normally.  Everything else is input sampling.
C15  Each stream owns ONE LLE and ONE SLE solver object that remember the previous solution;
     the property quantifies over histories of 1-4 earlier calls.  Twins are built by
     replaying a stream's recorded public-API history on brand-new objects.
"""
import io
import math
import pickle
import warnings

import numpy as np

from sim import env
from sim.kernel import BaseWorld, Violation

env.import_thermosteam()
import thermosteam as tmo  # noqa: E402
from thermosteam import equilibrium as eq  # noqa: E402
import flexsolve as flx  # noqa: E402
from sim import faults  # noqa: E402

faults.install_solver_seams()
warnings.filterwarnings('ignore')

NAME = 'eqsim_ll'

# ====================================================================== seams of this engine

_IQ = {'fallback_calls': 0, 'capped': 0, 'guess_capped': 0}


def _install_iq_probe():
    """Counts IQ_interpolation calls that carry an explicit guess `x` (6th positional argument):
    inside bubble_point.py / dew_point.py only the FALLBACK calls do (the ideal guess stage
    passes None).  Pass-through; wraps the S3 seam installed by sim.faults."""
    cur = flx.IQ_interpolation
    if getattr(cur, '_ll_probe', False):
        return
    inner = cur

    def IQ_interpolation(*args, **kwargs):
        if len(args) > 5 and callable(args[0]):
            fallback = args[5] is not None
            if fallback:
                _IQ['fallback_calls'] += 1
            f = args[0]
            n = [0]

            def counted(*a):
                n[0] += 1
                return f(*a)
            out = inner(counted, *args[1:], **kwargs)
            # flexsolve evaluates f once for the first point and once per iteration: 1 + maxiter
            # evaluations mean the loop ran out (with checkiter=False the last iterate is returned as
            # if it had converged)
            if n[0] >= 1 + kwargs.get('maxiter', 50):
                _IQ['capped' if fallback else 'guess_capped'] += 1
            return out
        return inner(*args, **kwargs)
    IQ_interpolation._ll_probe = True
    IQ_interpolation.__wrapped__ = inner
    flx.IQ_interpolation = IQ_interpolation


_install_iq_probe()


class PsatSeam:
    """Pass-through proxy around a chemical's vapour-pressure handle (fault site 'Psat')."""
    __slots__ = ('inner',)

    def __init__(self, inner):
        self.inner = inner

    def __call__(self, *args, **kwargs):
        plan = faults._state['plan']
        if plan is not None and plan['kind'] == 'model_error' and plan['site'] == 'Psat':
            plan['count'] += 1
            if plan['count'] == plan['nth'] and not plan['fired']:
                plan['fired'] = True
                faults._raise(plan, 'model Psat')
        return self.inner(*args, **kwargs)

    def __getattr__(self, name):
        if name == 'inner' or name.startswith('__'):
            raise AttributeError(name)
        return getattr(self.inner, name)


_SLE_REC = {'x': None}
COARSE_ACTIVITY_ORACLE = False    # calibration: the unchanged tree shows it (shgo, about 1 in 6000 runs: KF-C15-3), so it stays a probe


def _install_sle_recorder():
    """Pass-through recorder on SLE._solve_x: 'the solubility it computed' of property C15 is the
    value this method hands back to SLE.__call__ (class attribute rebound in this process only)."""
    cur = eq.SLE._solve_x
    if getattr(cur, '_ll_probe', False):
        return

    def _solve_x(self, T):
        x = cur(self, T)
        _SLE_REC['x'] = x
        return x
    _solve_x._ll_probe = True
    eq.SLE._solve_x = _solve_x


_install_sle_recorder()

_own = {}


def own_chemical(cid, family):
    """Chemical objects private to this engine (never shared with sim.universe)."""
    key = (family, cid)
    if key not in _own:
        _own[key] = tmo.Chemical(cid)
    return _own[key]


# ====================================================================== C08 universe

POOL8 = ['Water', 'Ethanol', 'Methanol', 'Propanol', 'Butanol', 'Acetone', 'Hexane', 'Heptane',
         'Octane', 'Benzene', 'Toluene', 'EthylAcetate', 'Pentane', 'Cyclohexane',
         # a volatile chemical WITHOUT Dortmund groups: the group-contribution kernel has to leave its activity
         # coefficient at one and write the others' to the right places, wherever it stands in the list
         'SO2']
ALKANES = {'Pentane', 'Hexane', 'Heptane', 'Octane', 'Cyclohexane'}
T_LO, T_HI = 260.0, 480.0
P_LO, P_HI = 5e3, 3e6

_vpk = {}


class VPackage:
    def __init__(self, ids, gamma):
        chems = [own_chemical(i, 'c08') for i in ids]
        G = eq.IdealActivityCoefficients if gamma == 'ideal' else eq.DortmundActivityCoefficients
        self.thermo = tmo.Thermo(tmo.Chemicals(chems), Gamma=G)
        for c in chems:
            if not isinstance(c._Psat, PsatSeam):
                c._Psat = PsatSeam(c._Psat)
        self.ids = list(ids)
        self.gamma = gamma
        self.chem = dict(zip(ids, chems))
        self.pos = {i: k for k, i in enumerate(ids)}
        self.Tlo = max(T_LO, max(float(c._Psat.Tmin) for c in chems))
        self.Thi = min(T_HI, min(float(c._Psat.Tmax) for c in chems))
        self._models = {}

    def chems(self, ids):
        return tuple(self.chem[i] for i in ids)

    def models(self, ids):
        """harness-side model objects (own instances, not those held by BubblePoint/DewPoint)"""
        key = tuple(ids)
        if key not in self._models:
            chs = self.chems(ids)
            th = self.thermo
            self._models[key] = (chs, th.Gamma(chs), th.Phi(chs), th.PCF(chs))
        return self._models[key]

    def bp(self, ids):
        BP = eq.BubblePoint(self.chems(ids), self.thermo)
        if not isinstance(BP.gamma, faults.ModelSeam):
            BP.gamma = faults.ModelSeam(BP.gamma, 'gamma')
        return BP

    def dp(self, ids):
        return eq.DewPoint(self.chems(ids), self.thermo)


def vpackage(ids, gamma):
    key = (tuple(ids), gamma)
    if key not in _vpk:
        _vpk[key] = VPackage(ids, gamma)
    return _vpk[key]


Z_ALPHABET = [0.0, 0.0, 1e-9, 1e-6, 1e-4]
SCALES = [2.0, 10.0, 0.01, 1e3, 3.7, 0.5]

C08_OPS = ['point', 'point', 'point', 'stream_point', 'stream_point', 'round_trip', 'round_trip',
           'order', 'order', 'scale', 'permute', 'single', 'edit', 'use_gamma', 'z_series']

# ---- frozen tolerances of C08
# Derivation: a solve stops when |dx| < xtol (T_tol = 1e-9 K, P_tol = 1e-3 Pa) or |residual| < ytol
# (5e-12), so the residual at the result is bounded by  unit_res = |d res/d x| * xtol + ytol  (x = the
# solved variable, slope taken numerically from the harness' own residual), and the solved variable
# reached through another path (round trip, k*z, permuted list, bubble vs dew) is pinned down to
# unit_x = xtol_own + (xtol_other * |d res/d other| + ytol) / |d res/d own|.
# Calibration (unchanged tree, fault-free batch: 4000 runs / 79656 steps / 66176 judged operations,
# seed 11, the four listed regions excluded):
#   max |residual| / unit_res   bubble T-solve 0.24, bubble P-solve 1.8e-6, dew T-solve 0.22, dew P-solve 8.5e-7
#   max round-trip deviation / unit_x  9.84 (bubble), 9.82 (dew)    [fault batch, 3000 runs: 9.93]
#   max permutation deviation / unit_x 8.3e-5;  scaling (bubble P) 1.3e-6;  ordering overshoot 5.6e-5
#   max |returned composition - implied composition| 5.0e-16;  |sum - 1| of returned composition <= 4.4e-16
# Frozen at >= 10 x those maxima:
NORM_TOL = 1e-12        # |sum(y) - 1| of the returned composition
RES_C = 10.0            # |residual| <= RES_C * unit_res
COMP_TOL = 1e-8         # returned vs implied composition (10 x the 1e-9 of the inner wegstein iterations)
RT_C = 100.0            # round trip: |x' - x| <= RT_C * unit_x
ORDER_C = 100.0         # ordering slack, same unit
INV_C = 100.0           # scaling / permutation invariance, same unit
SINGLE_RTOL = 1e-9      # single component: equal to Chemical.Tsat / Psat called directly
T_TOL = 1e-9            # BubblePoint.T_tol == DewPoint.T_tol
P_TOL = 1e-3            # BubblePoint.P_tol == DewPoint.P_tol
Y_TOL = 5e-12           # ytol handed to the solvers


def make_cfg_c08(rng, tier):
    lo, hi = tier.get('steps', (10, 30))
    n = rng.choice([1, 2, 2, 3, 3, 3, 4, 4, 5, 5])
    ids = rng.sample(POOL8, n)
    gamma = rng.choice(['ideal', 'dortmund', 'dortmund'])
    pk = vpackage(ids, gamma)
    streams = []
    for i in range(rng.randint(2, 4)):
        flows = [rng.choice(Z_ALPHABET + [round(rng.uniform(0.05, 10.0), 4)] * 6) for _ in ids]
        if not any(f > 0 for f in flows):
            flows[rng.randrange(n)] = 1.0
        streams.append({'name': f's{i}', 'flows': flows,
                        'T': round(rng.uniform(pk.Tlo, pk.Thi), 3),
                        'P': rng.choice([101325.0, 50000.0, 202650.0, 1e6])})
    ops = sorted(set(C08_OPS))
    weights = {o: (0 if (rng.random() < 0.2 and o not in ('point', 'round_trip')) else C08_OPS.count(o))
               for o in ops}
    return {'world': 'C08', 'steps': rng.randint(lo, hi), 'ids': ids, 'gamma': gamma,
            'streams': streams, 'weights': weights,
            'faults': rng.random() < tier.get('fault_rate', 0.6),
            'regions': list(tier.get('regions', [])), 'step_timeout': 30.0}


class Res:
    __slots__ = ('T', 'P', 'comp', 'z')

    def __init__(self, T, P, comp, z):
        self.T = float(T)
        self.P = float(P)
        self.comp = np.array(comp, dtype=float)
        self.z = np.array(z, dtype=float)

    def obs(self):
        return [float(self.T).hex(), float(self.P).hex(), [float(v).hex() for v in self.comp]]


class PointWorld(BaseWorld):
    """C08"""

    def __init__(self, prop, cfg):
        super().__init__(prop, cfg)
        self.regions = set(cfg.get('regions', []))
        self.zbuf = {}        # composition arrays a caller keeps and updates in place (by length)
        self.pk = vpackage(cfg['ids'], cfg['gamma'])
        tmo.settings.set_thermo(self.pk.thermo)
        self.streams = {}
        for spec in cfg['streams']:
            self.streams[spec['name']] = tmo.Stream(
                None, flow=np.array(spec['flows'], dtype=float), phase='l', T=spec['T'], P=spec['P'],
                thermo=self.pk.thermo)
        self.last = None
        self.calib = {}
        self.tracking = True

    # ------------------------------------------------------------------ helpers
    def track(self, name, value):
        if self.tracking and value > self.calib.get(name, 0.0):
            self.calib[name] = float(value)

    def flows(self, name):
        return np.asarray(self.streams[name].imol.data.to_array(), dtype=float)

    def z_of(self, q):
        if q.get('via') == 'stream':
            fl = self.flows(q['stream'])
            return np.array([fl[self.pk.pos[i]] for i in q['ids']], dtype=float)
        return np.array(q['z'], dtype=float)

    # ------------------------------------------------------------------ generation
    def gen_z(self, r, n, single=False):
        if single:
            z = [0.0] * n
            z[r.randrange(n)] = r.choice([1.0, 1.0, 0.3, 5.0])
            return z
        for _ in range(20):
            z = [r.choice(Z_ALPHABET + [r.uniform(0.02, 1.0)] * 7) for _ in range(n)]
            if sum(1 for v in z if v > 0) >= min(2, n):
                break
        else:
            z = [1.0] * n
        s = sum(z)
        return [v / s for v in z]

    def gen_ids(self, r, single=False):
        ids = list(self.pk.ids)
        k = r.choice([len(ids)] * 3 + list(range(1, len(ids) + 1)))
        sub = sorted(r.sample(ids, k), key=self.pk.pos.get)
        if r.random() < 0.25:
            r.shuffle(sub)
        return sub

    def gen_value(self, r, spec, ids, z):
        pk = self.pk
        if spec == 'T':
            return r.uniform(pk.Tlo, pk.Thi)
        if r.random() < 0.6:
            # a pressure that belongs to a temperature of the window (ideal bubble pressure)
            T0 = r.uniform(pk.Tlo, pk.Thi)
            zs = np.array(z, float)
            with faults.disarmed():
                Ps = np.array([float(pk.chem[i].Psat(T0)) for i in ids])
            P = float((zs / zs.sum() * Ps).sum())
            return min(max(P, P_LO), P_HI)
        return 10 ** r.uniform(math.log10(P_LO), math.log10(P_HI))

    def gen_query(self, r, kind=None, spec=None, single=False, via=None):
        ids = self.gen_ids(r)
        z = self.gen_z(r, len(ids), single=single)
        kind = kind or r.choice(['bubble', 'dew'])
        spec = spec or r.choice(['T', 'P'])
        q = {'kind': kind, 'spec': spec, 'ids': ids, 'z': z, 'via': via or 'direct'}
        q['value'] = self.gen_value(r, spec, ids, z)
        if r.random() < 0.35:
            q['entry'] = 'solve'      # the public solve_Ty / solve_Py / solve_Tx / solve_Px entry points
        if r.random() < 0.3:
            q['reuse_z'] = True       # the caller keeps ONE composition array and updates it in place between calls
        return q

    def gen_fault(self, r, nqueries):
        if r.random() < 0.6:
            return {'kind': 'solver_fail',
                    'site': r.choice(['aitken_secant'] * 5 + ['IQ_interpolation', 'wegstein', 'wegstein']),
                    'nth': r.randint(1, 3),
                    'exc': r.choice(['RuntimeError', 'InfeasibleRegion', 'InfeasibleRegion', 'ValueError'])}
        if r.random() < 0.8:
            return {'kind': 'model_error', 'site': 'Psat', 'nth': r.randint(1, 30 * nqueries),
                    'exc': r.choice(['RuntimeError', 'InfeasibleRegion', 'ValueError', 'FloatingPointError'])}
        return {'kind': 'model_error', 'site': 'gamma', 'nth': r.randint(1, 4 * nqueries),
                'exc': r.choice(['RuntimeError', 'InfeasibleRegion', 'ValueError'])}

    def gen(self, rngs):
        r = rngs.args
        w = self.cfg['weights']
        ops = [o for o in sorted(w) if w[o] > 0]
        wts = [w[o] for o in ops]
        for _ in range(40):
            op = rngs.sched.choices(ops, wts)[0]
            ev = self.candidate(op, r)
            if ev is None:
                continue
            ev['op'] = op
            if op not in ('edit', 'use_gamma') and self.cfg['faults'] and rngs.fault.random() < 0.5:
                ev['fault'] = self.gen_fault(rngs.fault, 2 if op in ('round_trip', 'order', 'scale', 'permute') else 1)
            reg = self.divert(ev)
            if reg == 'skip':
                continue
            if self.pre(ev):
                return ev
        return {'op': 'noop'}

    def candidate(self, op, r):
        names = sorted(self.streams)
        if op == 'use_gamma':
            # another owner of the solver objects' SHARED activity-coefficient model uses it directly
            ids = self.gen_ids(r)
            x = self.gen_z(r, len(ids))
            tot = sum(x) or 1.0
            return {'ids': ids, 'x': [v / tot for v in x], 'T': round(r.uniform(self.pk.Tlo, self.pk.Thi), 2),
                    'kind': r.choice(['bubble', 'dew']), 'how': r.choice(['call', 'helper', 'helper'])}
        if op == 'z_series':
            # a sweep: the SAME specification for a series of compositions, written one after the other into one
            # array object that the caller keeps
            q = self.gen_query(r)
            q['reuse_z'] = True
            zs = [self.gen_z(r, len(q['ids'])) for _ in range(r.randint(1, 3))]
            return {'q': q, 'zs': zs}
        if op == 'point':
            return {'q': self.gen_query(r)}
        if op == 'single':
            return {'q': self.gen_query(r, single=True)}
        if op == 'stream_point':
            s = r.choice(names)
            fl = self.flows(s)
            for _ in range(10):
                ids = self.gen_ids(r)
                if sum(fl[self.pk.pos[i]] for i in ids) > 0:
                    break
            else:
                return None
            q = {'kind': r.choice(['bubble', 'dew']), 'spec': r.choice(['T', 'P']), 'ids': ids,
                 'via': 'stream', 'stream': s}
            z = [float(fl[self.pk.pos[i]]) for i in ids]
            q['value'] = self.gen_value(r, q['spec'], ids, z)
            return {'q': q}
        if op == 'round_trip':
            return {'q': self.gen_query(r)}
        if op == 'order':
            q = self.gen_query(r, kind='bubble')
            return {'q': q}
        if op == 'scale':
            q = self.gen_query(r)
            return {'q': q, 'k': r.choice(SCALES)}
        if op == 'permute':
            q = self.gen_query(r)
            n = len(q['ids'])
            if n < 2:
                return None
            perm = list(range(n))
            while perm == list(range(n)):
                r.shuffle(perm)
            return {'q': q, 'perm': perm, 'form': r.choice(['list', 'package'])}
        if op == 'edit':
            s = r.choice(names)
            what = r.choice(['flows', 'flows', 'T'])
            if what == 'T':
                return {'stream': s, 'T': round(r.uniform(self.pk.Tlo, self.pk.Thi), 3)}
            n = len(self.pk.ids)
            flows = [r.choice(Z_ALPHABET + [round(r.uniform(0.05, 10.0), 4)] * 6) for _ in range(n)]
            if not any(f > 0 for f in flows):
                flows[r.randrange(n)] = 1.0
            return {'stream': s, 'flows': flows}
        return None

    # ---- known-finding regions -------------------------------------------------------------
    def solves_dew(self, ev):
        return ev['op'] == 'order' or ev['q']['kind'] == 'dew'

    def n_present(self, q):
        return int((self.z_of(q) > 0).sum())

    def in_dew_activity(self, ev):
        """C08-dew-activity: a dew-point solve on an activity-coefficient (non-ideal Gamma)
        package with two or more chemicals present."""
        return (ev['op'] != 'edit' and self.pk.gamma != 'ideal' and self.solves_dew(ev)
                and self.n_present(ev['q']) >= 2)

    def unnormalised(self, ev):
        """C08-unnormalised-z: a DIRECT query whose composition argument does not sum to one and
        that is solved by solve_Ty / solve_Tx / solve_Px (everything except bubble pressure)."""
        q = ev['q']
        if q.get('via') == 'stream' or self.n_present(q) < 2:
            return False
        return not (q['kind'] == 'bubble' and q['spec'] == 'T' and ev['op'] != 'round_trip')

    def in_bubble_T_water_alkane(self, ev):
        """C08-bubble-T-water-alkane: a bubble-TEMPERATURE solve on an activity-coefficient package with
        Water and a C5-C8 alkane / cycloalkane both present (activity coefficients of 1e3-1e5)."""
        if ev['op'] == 'edit' or self.pk.gamma == 'ideal':
            return False
        q = ev['q']
        if not (ev['op'] == 'order' and q['spec'] == 'P') and not (
                q['kind'] == 'bubble' and (q['spec'] == 'P' or ev['op'] == 'round_trip')):
            return False
        z = self.z_of(q)
        present = {i for i, v in zip(q['ids'], z) if v > 0}
        return 'Water' in present and bool(present & ALKANES)

    def divert(self, ev):
        """Generator-side avoidance of listed regions. -> 'skip' | None (ev may be edited)"""
        if ev['op'] in ('edit', 'use_gamma'):
            return None
        if 'C08-unnormalised-z' in self.regions and ev['op'] == 'scale' and self.unnormalised(ev):
            self.stats['region:C08-unnormalised-z'] += 1
            return 'skip'
        if 'C08-bubble-T-water-alkane' in self.regions and self.in_bubble_T_water_alkane(ev):
            self.stats['region:C08-bubble-T-water-alkane'] += 1
            return 'skip'
        if 'C08-dew-activity' in self.regions and self.in_dew_activity(ev):
            # inside the region the clause is judged differentially only: the un-faulted query
            # must itself satisfy the clause (screen) before the faulted one is judged
            if not ev.get('fault'):
                self.stats['region:C08-dew-activity'] += 1
                return 'skip'
            ev['screen'] = True
        if 'C08-dew-activity-fallback' in self.regions and self.in_dew_activity(ev) and ev.get('fault'):
            # the recovery path of the same solves: a faulted dew-point solve on an activity package
            self.stats['region:C08-dew-activity-fallback'] += 1
            return 'skip'
        return None

    # ------------------------------------------------------------------ preconditions
    def pre_q(self, q):
        try:
            ids = q['ids']
            if not ids or len(set(ids)) != len(ids) or any(i not in self.pk.pos for i in ids):
                return False
            if q['kind'] not in ('bubble', 'dew') or q['spec'] not in ('T', 'P'):
                return False
            v = q['value']
            if q['spec'] == 'T' and not (self.pk.Tlo <= v <= self.pk.Thi):
                return False
            if q['spec'] == 'P' and not (P_LO <= v <= P_HI):
                return False
            if q.get('via') == 'stream':
                if q['stream'] not in self.streams:
                    return False
            elif len(q['z']) != len(ids) or min(q['z']) < 0:
                return False
            z = self.z_of(q)
            return bool(z.sum() > 0)
        except (KeyError, TypeError):
            return False

    def pre(self, ev):
        op = ev.get('op')
        if op == 'noop':
            return True
        if op == 'use_gamma':
            ids = ev.get('ids') or []
            return (bool(ids) and len(set(ids)) == len(ids) and all(i in self.pk.pos for i in ids)
                    and len(ev.get('x', ())) == len(ids) and min(ev['x']) >= 0 and sum(ev['x']) > 0
                    and self.pk.Tlo <= ev.get('T', 0) <= self.pk.Thi)
        if op == 'edit':
            if ev.get('stream') not in self.streams:
                return False
            if 'T' in ev:
                return self.pk.Tlo <= ev['T'] <= self.pk.Thi
            return len(ev['flows']) == len(self.pk.ids) and min(ev['flows']) >= 0 and sum(ev['flows']) > 0
        if op not in ('point', 'single', 'stream_point', 'round_trip', 'order', 'scale', 'permute', 'z_series'):
            return False
        if op == 'z_series' and not all(len(z) == len(ev['q']['ids']) and min(z) >= 0 and sum(z) > 0
                                        for z in ev.get('zs', [])):
            return False
        if 'q' not in ev or not self.pre_q(ev['q']):
            return False
        if op == 'permute':
            n = len(ev['q']['ids'])
            return sorted(ev.get('perm', [])) == list(range(n)) and n >= 2
        if op == 'scale':
            return ev.get('k', 0) > 0 and ev['q'].get('via') != 'stream'
        if op == 'single':
            return self.n_present(ev['q']) == 1
        return True

    # ------------------------------------------------------------------ the real calls
    def query(self, q, pk=None, z=None, stream=None):
        """One public-API point query -> Res"""
        pk = pk or self.pk
        ids = q['ids']
        kw = {q['spec']: q['value']}
        with faults.disarmed():
            # the process-global instance is created (its constructor evaluates Psat at the bounds) outside
            # the armed section, so that what a fault plan counts does not depend on what ran before
            obj = pk.bp(ids) if q['kind'] == 'bubble' else pk.dp(ids)
        if q.get('via') == 'stream' or stream is not None:
            s = stream if stream is not None else self.streams[q['stream']]
            zz = self.z_of(q) if z is None else z
            m = getattr(s, f"{q['kind']}_point_at_{q['spec']}")
            v = m(q['value'], IDs=tuple(ids))
        else:
            zz = np.array(q['z'], float) if z is None else z
            arg = zz.copy()
            if q.get('reuse_z') and z is None and pk is self.pk:
                buf = self.zbuf.get(len(zz))
                if buf is None:
                    buf = self.zbuf[len(zz)] = np.zeros(len(zz))
                buf[:] = zz
                arg = buf
            if q.get('entry') == 'solve':
                m = getattr(obj, 'solve_' + {'T': 'P', 'P': 'T'}[q['spec']] + ('y' if q['kind'] == 'bubble' else 'x'))
                val, comp = m(arg, q['value'])[:2]
                if tuple(obj.IDs) != tuple(ids):
                    self.fail('ids', f'solver object lists chemicals {obj.IDs}, asked for {ids}')
                T, P = (q['value'], val) if q['spec'] == 'T' else (val, q['value'])
                return Res(T, P, comp, zz)
            v = obj(arg, **kw)
        comp = v.y if q['kind'] == 'bubble' else v.x
        if tuple(v.IDs) != tuple(ids):
            self.fail('ids', f'result lists chemicals {v.IDs}, asked for {ids}')
        return Res(v.T, v.P, comp, zz)

    def call(self, ev, f):
        fault = ev.get('fault')
        _IQ['fallback_calls'] = 0
        _IQ['capped'] = 0
        _IQ['guess_capped'] = 0
        with faults.armed(fault) as plan:
            try:
                out = ('ok', f(), False)
            except Violation:
                raise
            except (KeyboardInterrupt, SystemExit):
                raise
            except Exception as e:
                out = ('exc', e, bool(plan and plan['fired']))
        fired = bool(plan is not None and plan['fired'])
        if fired:
            self.stats['fault:' + plan['kind'] + ':' + plan['site']] += 1
            if out[0] == 'ok':
                self.stats['probe:fault_fired_and_call_returned'] += 1
                if _IQ['fallback_calls']:
                    self.stats['probe:fallback_IQ_interpolation_ran_and_returned'] += 1
        if out[0] == 'ok' and _IQ['guess_capped']:
            self.stats['probe:guess_stage_stopped_by_iteration_cap'] += 1
        if out[0] == 'ok' and _IQ['capped']:
            self.stats['probe:fallback_stopped_by_iteration_cap'] += 1
        if out[0] == 'ok' and (_IQ['capped'] or _IQ['guess_capped']) and 'C08-IQ-iteration-cap' in self.regions:
            # listed known finding: an IQ_interpolation call of this operation (ideal-guess stage or
            # fallback) used up maxiter=50 and its last iterate was used as if converged; the predicate
            # is observed on the execution itself, the operation gets no verdict
            self.stats['region:C08-IQ-iteration-cap'] += 1
            out = ('capped', out[1], False)
        return out + (fired,)

    # ------------------------------------------------------------------ independent evaluation
    def implied(self, kind, ids, z, T, P, comp, pk=None):
        """Composition implied by modified Raoult's law at (T, P): bubble y_i = z_i g_i pcf_i Psat_i
        / (phi_i P) with g at the liquid z; dew x_i = z_i phi_i P / (g_i pcf_i Psat_i) with g at the
        returned liquid x."""
        pk = pk or self.pk
        chs, gamma, phi, pcf = pk.models(ids)
        zn = z / z.sum()
        with faults.disarmed(), np.errstate(all='ignore'):
            Ps = np.array([float(c.Psat(T)) for c in chs])
            if kind == 'bubble':
                g = np.asarray(gamma(zn, T), float)
                f = np.asarray(phi(comp, T, P), float)
                c = np.asarray(pcf(T, P, Ps), float)
                return zn * g * c * Ps / (f * P)
            xs = np.where(comp < 1e-32, 1e-32, comp)
            xs = xs / xs.sum()
            g = np.asarray(gamma(xs, T), float)
            f = np.asarray(phi(zn, T, P), float)
            c = np.asarray(pcf(T, P, Ps), float)
            return zn * f * P / (g * c * Ps)

    def residual(self, kind, ids, z, T, P, comp, pk=None):
        return float(self.implied(kind, ids, z, T, P, comp, pk).sum() - 1.0)

    def slopes(self, kind, ids, z, T, P, comp, pk=None):
        """local slopes of the residual (composition argument of the models frozen)"""
        hT = 1e-3
        hP = 1e-4 * P
        with np.errstate(all='ignore'):
            dT = (self.residual(kind, ids, z, T + hT, P, comp, pk)
                  - self.residual(kind, ids, z, T - hT, P, comp, pk)) / (2 * hT)
            dP = (self.residual(kind, ids, z, T, P + hP, comp, pk)
                  - self.residual(kind, ids, z, T, P - hP, comp, pk)) / (2 * hP)
        return float(dT), float(dP)

    def in_domain(self, r, pk=None):
        pk = pk or self.pk
        return (pk.Tlo <= r.T <= pk.Thi) and (P_LO <= r.P <= P_HI) and math.isfinite(r.T) and math.isfinite(r.P)

    def check_point(self, ev, q, r, tag='', pk=None, fail=True):
        """Defining equation + normalised output of one result. -> None | (oracle, msg, detail)"""
        kind, ids = q['kind'], q['ids']
        z = r.z
        detail = {'event': ev, 'query': q, 'T': r.T, 'P': r.P, 'composition': r.comp.tolist(),
                  'z': z.tolist(), 'package': self.cfg['ids'], 'gamma': self.cfg['gamma']}
        bad = None
        if not (np.isfinite(r.comp).all() and (r.comp >= 0).all()):
            bad = ('normalised', f'{tag}{kind} point returned a non-finite or negative composition', detail)
        elif abs(r.comp.sum() - 1.0) > NORM_TOL:
            bad = ('normalised', f'{tag}{kind} point composition sums to {r.comp.sum()!r}', detail)
        else:
            imp = self.implied(kind, ids, z, r.T, r.P, r.comp, pk)
            res = float(imp.sum() - 1.0)
            dT, dP = self.slopes(kind, ids, z, r.T, r.P, r.comp, pk)
            slope, xtol = (dP, P_TOL) if q['spec'] == 'T' else (dT, T_TOL)
            bound = abs(slope) * xtol + Y_TOL
            if int((z > 0).sum()) >= 2:
                self.track(f'res_ratio:{kind}:{q["spec"]}', abs(res) / bound if math.isfinite(res) else 1e300)
            detail['residual'] = res
            detail['bound'] = RES_C * bound
            if not math.isfinite(res) or abs(res) > RES_C * bound:
                bad = (f'{kind}-equation',
                       f'{tag}{kind} point at {q["spec"]}={q["value"]!r}: the '
                       f'{"vapour" if kind == "bubble" else "liquid"} fractions implied by modified '
                       f'Raoult\'s law at the returned (T={r.T!r}, P={r.P!r}) sum to {1 + res!r}', detail)
            else:
                with np.errstate(all='ignore'):
                    d = float(np.abs(imp / imp.sum() - r.comp).max())
                self.track(f'comp:{kind}', d)
                if d > COMP_TOL:
                    detail['implied'] = (imp / imp.sum()).tolist()
                    bad = (f'{kind}-composition',
                           f'{tag}{kind} point returns a composition that differs by {d:.3g} from the one '
                           f'implied at its own (T, P)', detail)
        if bad and fail:
            self.fail(*bad)
        return bad

    def check_single(self, ev, q, r):
        ids = q['ids']
        z = r.z
        k = int(np.flatnonzero(z > 0)[0])
        c = self.pk.chem[ids[k]]
        with faults.disarmed():
            if q['spec'] == 'P':
                ref = float(c.Tsat(q['value'], check_validity=False))
                got = r.T
            else:
                ref = float(c.Psat(q['value']))
                got = r.P
        if abs(got - ref) > SINGLE_RTOL * abs(ref):
            self.fail('single-component',
                      f'{q["kind"]} point of pure {ids[k]} (listed with {len(ids) - 1} absent chemicals) at '
                      f'{q["spec"]}={q["value"]!r} gives {got!r}, the chemical\'s saturation value is {ref!r}',
                      {'event': ev})
        want = np.zeros(len(ids))
        want[k] = 1.0
        if np.abs(r.comp - want).max() > NORM_TOL:
            self.fail('single-component', f'composition {r.comp.tolist()} is not pure {ids[k]}', {'event': ev})

    def dx_tol(self, q, r, C, pk=None):
        """tolerance on the SOLVED variable when the same root is reached through another path:
        own resolution plus the other variable's resolution mapped through the local slope"""
        dT, dP = self.slopes(q['kind'], q['ids'], r.z, r.T, r.P, r.comp, pk)
        with np.errstate(all='ignore'):
            if q['spec'] == 'P':      # T was solved
                return C * (T_TOL + (P_TOL * abs(dP) + Y_TOL) / max(abs(dT), 1e-300))
            return C * (P_TOL + (T_TOL * abs(dT) + Y_TOL) / max(abs(dP), 1e-300))

    # ------------------------------------------------------------------ apply
    def apply(self, ev):
        op = ev.get('op')
        if op == 'noop':
            return 'noop'
        if not self.pre(ev):
            return 'skip:pre'
        self.stats['op:' + op] += 1
        if op == 'use_gamma':
            with faults.disarmed():
                obj = self.pk.bp(ev['ids']) if ev['kind'] == 'bubble' else self.pk.dp(ev['ids'])
            g = getattr(obj, 'gamma', None)
            x = np.array(ev['x'], float)
            try:
                if ev['how'] == 'helper' and hasattr(g, 'activity_coefficients'):
                    g.activity_coefficients(x, ev['T'])
                    self.stats['probe:shared_gamma_helper_used'] += 1
                elif g is not None:
                    g(x, ev['T'])
            except Exception as e:
                self.stats['exc:use_gamma:' + type(e).__name__] += 1
            self.last = ('use_gamma', ev['how'])
            return 'ok'
        if op == 'edit':
            s = self.streams[ev['stream']]
            if 'T' in ev:
                s.T = ev['T']
            else:
                s.imol[tuple(self.pk.ids)] = np.array(ev['flows'], dtype=float)
            self.last = ('edit',)
            return 'ok'
        self.stats['mechanism_ops'] += 1
        with warnings.catch_warnings():
            warnings.simplefilter('ignore')
            obs = getattr(self, 'do_' + op)(ev)
        q = ev['q']
        z = self.z_of(q)
        pat = tuple(0 if v == 0 else (1 if v / z.sum() < 1e-3 else 2) for v in z)
        f = ev.get('fault')
        self.last = (op, q['kind'], q['spec'], q.get('via', 'direct'), pat,
                     (f['kind'], f['site'], f['exc']) if f else None,
                     obs if isinstance(obs, str) else obs[0])
        return obs

    def screened_out(self, ev, checks):
        """Region C08-dew-activity (listed): is the UN-faulted evaluation of this operation already
        in violation of the clause?  `checks` runs the operation's queries and checks without
        raising and returns True when all of them pass."""
        if not ev.get('screen'):
            return False
        self.tracking = False
        try:
            with faults.disarmed():
                try:
                    ok = checks()
                except Violation:
                    raise
                except Exception:
                    ok = False
        finally:
            self.tracking = True
        if not ok:
            self.stats['region:C08-dew-activity'] += 1
        return not ok

    def outcome(self, ev, r):
        """classify a ('ok'|'exc', value, injected, fired) call result that did not return a value"""
        if r[0] == 'capped':
            return 'known-finding:IQ-iteration-cap'
        e = r[1]
        if r[3]:
            self.stats['faulted_call_raised'] += 1
            return ['raised-after-fault', type(e).__name__]
        self.stats['natural_exception:' + type(e).__name__] += 1
        return ['raised', type(e).__name__]

    def do_point(self, ev):
        q = ev['q']
        if self.screened_out(ev, lambda: (lambda r: (not self.in_domain(r)) or
                                          self.check_point(ev, q, r, fail=False) is None)(self.query(q))):
            return 'screened-out'
        r = self.call(ev, lambda: self.query(q))
        if r[0] != 'ok':
            return self.outcome(ev, r)
        res = r[1]
        if not self.in_domain(res):
            self.stats['outside_domain'] += 1
            return ['outside-domain'] + res.obs()
        self.stats['judged'] += 1
        if int((res.z > 0).sum()) == 1:
            # one chemical present: solved by Chemical.Tsat / Psat, judged against exactly that
            self.check_single(ev, q, res)
        else:
            self.check_point(ev, q, res)
        return ['ok'] + res.obs()

    do_stream_point = do_point
    do_single = do_point

    def do_z_series(self, ev):
        out = [self.do_point(ev)]
        for z in ev.get('zs', []):
            q2 = dict(ev['q'], z=list(z))
            if not self.pre_q(q2):
                continue
            e2 = dict(ev, q=q2, op='point')
            if self.divert(e2) == 'skip':       # every element of the sweep is subject to the listed regions
                continue
            out.append(self.do_point(e2))
        return ['ok', str(out)[:120]]

    def other(self, q, value):
        q2 = dict(q)
        q2['spec'] = 'P' if q['spec'] == 'T' else 'T'
        q2['value'] = value
        return q2

    def do_round_trip(self, ev):
        q = ev['q']

        def run():
            a = self.query(q)
            q2 = self.other(q, a.P if q['spec'] == 'T' else a.T)
            lo, hi = (P_LO, P_HI) if q['spec'] == 'T' else (self.pk.Tlo, self.pk.Thi)
            if not (lo <= q2['value'] <= hi):
                return a, None, q2
            return a, self.query(q2), q2

        def judge(a, b, q2, fail=True):
            x0 = q['value']
            x1 = b.T if q['spec'] == 'T' else b.P
            tol = self.dx_tol(q2, b, RT_C)
            self.track(f'rt_ratio:{q["kind"]}:{q["spec"]}', abs(x1 - x0) / (tol / RT_C))
            if abs(x1 - x0) > tol or not math.isfinite(x1):
                if fail:
                    self.fail('round-trip',
                              f'{q["kind"]} point: {q["spec"]}={x0!r} gives '
                              f'{q2["spec"]}={q2["value"]!r}, solving back gives {q["spec"]}={x1!r} '
                              f'(tolerance {tol:.3g})',
                              {'event': ev, 'first': a.obs(), 'second': b.obs(), 'package': self.cfg['ids'],
                               'gamma': self.cfg['gamma']})
                return False
            return True

        def screen():
            a, b, q2 = run()
            return b is None or not self.in_domain(b) or judge(a, b, q2, fail=False)
        if self.screened_out(ev, screen):
            return 'screened-out'
        r = self.call(ev, run)
        if r[0] != 'ok':
            return self.outcome(ev, r)
        a, b, q2 = r[1]
        if b is None or not self.in_domain(b):
            self.stats['outside_domain'] += 1
            return ['outside-domain'] + a.obs()
        self.stats['judged'] += 1
        judge(a, b, q2)
        return ['ok'] + a.obs() + b.obs()

    def do_order(self, ev):
        q = ev['q']
        qd = dict(q)
        qd['kind'] = 'dew'

        def run():
            return self.query(q), self.query(qd)

        def judge(b, d, fail=True):
            if q['spec'] == 'P':
                tol = self.dx_tol(q, b, ORDER_C) + self.dx_tol(qd, d, ORDER_C)
                self.track('order_ratio:T', max(0.0, b.T - d.T) / (tol / ORDER_C))
                ok = b.T <= d.T + tol
                msg = f'bubble temperature {b.T!r} exceeds dew temperature {d.T!r} at P={q["value"]!r}'
            else:
                tol = self.dx_tol(q, b, ORDER_C) + self.dx_tol(qd, d, ORDER_C)
                self.track('order_ratio:P', max(0.0, d.P - b.P) / (tol / ORDER_C))
                ok = d.P <= b.P + tol
                msg = f'dew pressure {d.P!r} exceeds bubble pressure {b.P!r} at T={q["value"]!r}'
            if not ok and fail:
                self.fail('order', msg, {'event': ev, 'bubble': b.obs(), 'dew': d.obs(),
                                         'package': self.cfg['ids'], 'gamma': self.cfg['gamma']})
            return ok

        def screen():
            b, d = run()
            if not (self.in_domain(b) and self.in_domain(d)):
                return True
            return (self.check_point(ev, q, b, fail=False) is None
                    and self.check_point(ev, qd, d, fail=False) is None and judge(b, d, fail=False))
        if self.screened_out(ev, screen):
            return 'screened-out'
        r = self.call(ev, run)
        if r[0] != 'ok':
            return self.outcome(ev, r)
        b, d = r[1]
        if not (self.in_domain(b) and self.in_domain(d)):
            self.stats['outside_domain'] += 1
            return ['outside-domain'] + b.obs() + d.obs()
        self.stats['judged'] += 1
        judge(b, d)
        return ['ok'] + b.obs() + d.obs()

    def same_result(self, ev, q, a, b, oracle, what, pk_b=None, perm=None, fail=True):
        comp_b = b.comp
        if perm is not None:
            comp_b = np.empty_like(b.comp)
            comp_b[perm] = b.comp       # b lists chemical perm[j] at position j
        tol = self.dx_tol(q, a, INV_C)
        x_a, x_b = (a.P, b.P) if q['spec'] == 'T' else (a.T, b.T)
        self.track(f'{oracle}_ratio:{q["kind"]}:{q["spec"]}', abs(x_a - x_b) / (tol / INV_C))
        d = float(np.abs(a.comp - comp_b).max())
        self.track(f'{oracle}_comp', d)
        if abs(x_a - x_b) > tol or d > COMP_TOL or not math.isfinite(x_b):
            if fail:
                solved = 'P' if q['spec'] == 'T' else 'T'
                self.fail(oracle, f'{q["kind"]} point at {q["spec"]}={q["value"]!r}: {what} changes the result '
                                  f'from {solved}={x_a!r} to {solved}={x_b!r} (tolerance {tol:.3g}; composition '
                                  f'difference {d:.3g})',
                          {'event': ev, 'first': a.obs(), 'second': b.obs(), 'package': self.cfg['ids'],
                           'gamma': self.cfg['gamma']})
            return False
        return True

    def do_scale(self, ev):
        q = ev['q']
        k = ev['k']
        z = np.array(q['z'], float)

        def run():
            return self.query(q), self.query(q, z=z * k)

        def screen():
            a, b = run()
            return (not (self.in_domain(a) and self.in_domain(b))
                    or self.same_result(ev, q, a, b, 'scaling', '', fail=False))
        if self.screened_out(ev, screen):
            return 'screened-out'
        r = self.call(ev, run)
        if r[0] != 'ok':
            return self.outcome(ev, r)
        a, b = r[1]
        if not (self.in_domain(a) and self.in_domain(b)):
            self.stats['outside_domain'] += 1
            return ['outside-domain'] + a.obs() + b.obs()
        self.stats['judged'] += 1
        self.same_result(ev, q, a, b, 'scaling', f'passing {k!r}*z instead of z')
        return ['ok'] + a.obs() + b.obs()

    def do_permute(self, ev):
        q = ev['q']
        perm = ev['perm']
        ids2 = [q['ids'][j] for j in perm]
        z = self.z_of(q)
        z2 = z[perm]
        q2 = dict(q)
        q2['ids'] = ids2
        q2['via'] = 'direct'
        q2['z'] = z2.tolist()
        pk2 = self.pk
        if ev.get('form') == 'package':
            # a package whose chemical list is permuted: ids2 first, then the rest
            rest = [i for i in self.pk.ids if i not in ids2]
            pk2 = vpackage(ids2 + rest, self.pk.gamma)

        def run():
            a = self.query(q)
            if ev.get('form') == 'package':
                flows = np.zeros(len(pk2.ids))
                flows[:len(ids2)] = z2
                s2 = tmo.Stream(None, flow=flows, phase='l', T=300., P=101325., thermo=pk2.thermo)
                b = self.query(q2, pk=pk2, z=z2, stream=s2)
            else:
                b = self.query(q2, z=z2)
            return a, b

        def screen():
            a, b = run()
            return (not (self.in_domain(a) and self.in_domain(b))
                    or self.same_result(ev, q, a, b, 'permutation', '', perm=perm, fail=False))
        try:
            if self.screened_out(ev, screen):
                return 'screened-out'
            r = self.call(ev, run)
        finally:
            tmo.settings.set_thermo(self.pk.thermo)
        if r[0] != 'ok':
            return self.outcome(ev, r)
        a, b = r[1]
        if not (self.in_domain(a) and self.in_domain(b)):
            self.stats['outside_domain'] += 1
            return ['outside-domain'] + a.obs() + b.obs()
        self.stats['judged'] += 1
        self.same_result(ev, q, a, b, 'permutation',
                         f'listing the chemicals as {ids2} ({ev.get("form")})', perm=perm)
        return ['ok'] + a.obs() + b.obs()

    # ------------------------------------------------------------------ measures
    def abstract_state(self):
        return (len(self.pk.ids), self.pk.gamma, self.last)

    def shared_touch(self, ev):
        if ev.get('op') in (None, 'noop', 'edit'):
            return None
        if ev.get('op') == 'use_gamma':
            return ('use_gamma', ev.get('how'), len(ev.get('ids', ())))
        q = ev['q']
        return (q['kind'], q['spec'], len(q['ids']), q.get('via', 'direct'), bool(ev.get('fault')))


# ====================================================================== C15 universe

LPKGS = {
    'L1': ['Water', 'Butanol', 'Octane'],
    'L2': ['Water', 'Ethanol', 'Octane', 'Hexane'],
    'L3': ['Water', 'EthylAcetate', 'Ethanol', 'Butanol', 'Hexane'],
    'L4': ['Water', 'Butanol', 'EthylAcetate', 'Octane'],
}
PARTIAL_WITH_WATER = {'Butanol', 'Octane', 'Hexane', 'EthylAcetate'}
# (solutes, solvents)
SPKGS = {
    'S1': (['Tetradecanol'], ['Methanol', 'Octanol', 'Ethanol']),
    'S2': (['Naphthalene', 'Biphenyl'], ['Benzene', 'Toluene', 'Ethanol']),
    'S3': (['BenzoicAcid', 'Phenol'], ['Water', 'Ethanol', 'Acetone']),
}
METHODS = ['pseudo equilibrium', 'shgo', 'differential evolution']
LLE_T = (285.0, 355.0)
SLE_T = (250.0, 450.0)
K_SCALES = [1e-3, 1e-2, 0.1, 0.5, 2.0, 10.0, 100.0, 1e3]

# ---- frozen tolerances of C15
# Calibration batches on the unchanged tree (fault-free, brand-new or aged streams as stated, the listed
# regions excluded), largest values seen over 2300 runs (seeds 1-5, 31, 41, 51; ~3000 probed lle calls):
#   aged vs brand-new stream ('fresh')      pseudo equilibrium: clause excluded (KF-C15-1); shgo 3.4e-9;
#                                           differential evolution 4.7e-8   [fraction of the feed]
#   use_cache True vs False ('cache')       pseudo equilibrium 2.2e-16, shgo 1.1e-7, differential evolution
#                                           5.9e-6 (legitimate reuse after an edit below the solver's own
#                                           composition_cache_tolerance = 1e-5)
#   k-scaled twin / k                       pseudo equilibrium 6.1e-15, differential evolution 2.3e-8, shgo 6.2e-7
#   SLE dissolved / cap - 1                 given 8.9e-16, computed 6.7e-16; other entries: unchanged bit for bit
# Equal activities on FRESH streams (the defining clause; 150-300 fresh cases per method):
#   'pseudo equilibrium': max_i |ln(a_i^L/a_i^l)| between 0.039 and 3.56 (median 0.41) on ALL 125 two-liquid
#       results - no converged sample exists on the unchanged tree (KF-C15-1); the bound is therefore DERIVED
#       from the solver's own xtol (1e-9 inner, 1e-12 outer): 1e-6, three orders above it.
#   'differential evolution': |ln ratio| / sqrt(2 f_tol / m_i) <= 0.20 for 298 of 300 cases (0.71 and 71 for the
#       other two); 'shgo': <= 0.71 for 95 %, 30-94 for the remaining 5 % (KF-C15-3).  ACT_C = 10 is >= 10 x the
#       converged cluster's maximum.
ACT_TOL_PE = 1e-6       # 'pseudo equilibrium': max_i |ln(a_i^L / a_i^l)|, a = x * gamma
ACT_C = 10.0            # 'shgo' / 'differential evolution': |ln(a_i^L / a_i^l)| <= ACT_C * sqrt(2 * OPT_FTOL / m_i)
OPT_FTOL = 1e-6         # LLE.shgo_options['f_tol'] == LLE.differential_evolution_options['tol']
SPLIT_TOL = 1e-4        # max |flow difference| / feed: fresh twin, cache vs no cache (10 x the solver's own 1e-5)
SCALE_TOL = 1e-5        # same measure between the k-scaled twin universe (divided by k) and the original
TOP_TOL = 1e-12         # slack on the mass-fraction ordering
SLE_RTOL = 1e-9         # "moves only the solute": other entries unchanged, solute total conserved
SLE_BOUND_RTOL = 1e-9   # dissolved <= (1 + SLE_BOUND_RTOL) * min(present, solvent * x / (1 - x))

_lpk = {}


class LPackage:
    def __init__(self, pid):
        if pid in LPKGS:
            ids = LPKGS[pid]
            self.solutes = []
        else:
            self.solutes, solvents = SPKGS[pid]
            ids = list(self.solutes) + list(solvents)
        self.pid = pid
        self.ids = list(ids)
        chems = [own_chemical(i, 'c15') for i in ids]
        self.thermo = tmo.Thermo(tmo.Chemicals(chems))
        self.chem = dict(zip(ids, chems))
        self.pos = {i: k for k, i in enumerate(ids)}
        self.MW = np.array([float(c.MW) for c in chems])
        self._gam = {}

    def gamma(self, idx):
        key = tuple(idx)
        if key not in self._gam:
            self._gam[key] = self.thermo.Gamma([self.chem[self.ids[k]] for k in idx])
        return self._gam[key]


def lpackage(pid):
    if pid not in _lpk:
        _lpk[pid] = LPackage(pid)
    return _lpk[pid]


class _Pickler(pickle.Pickler):
    def persistent_id(self, obj):
        if isinstance(obj, tmo.Thermo):
            for pid, pk in _lpk.items():
                if pk.thermo is obj:
                    return ('ll-thermo', pid)
        return None


class _Unpickler(pickle.Unpickler):
    def persistent_load(self, pid):
        return lpackage(pid[1]).thermo


def restart_copy(obj):
    buf = io.BytesIO()
    _Pickler(buf, protocol=pickle.HIGHEST_PROTOCOL).dump(obj)
    buf.seek(0)
    from sim import universe as _u
    with _u.no_compiled_cache_growth():
        return _Unpickler(buf).load()


def make_cfg_c15(rng, tier):
    lo, hi = tier.get('steps', (6, 16))
    family = 'sle' if rng.random() < tier.get('sle_share', 0.3) else 'lle'
    streams = []
    if family == 'lle':
        pid = rng.choice(sorted(LPKGS))
        ids = LPKGS[pid]
        method = rng.choice(['pseudo equilibrium'] * 5 + ['shgo', 'differential evolution', 'differential evolution'])
        for i in range(rng.randint(3, 5)):
            streams.append({'name': f'd{i}', 'flows': lle_flows(rng, ids), 'T': round(rng.uniform(*LLE_T), 2),
                            'P': 101325.0})
        steps = rng.randint(lo, hi)
        if method != 'pseudo equilibrium':
            steps = max(3, steps // 3)       # the global optimisers cost ~0.3 s per call
    else:
        pid = rng.choice(sorted(SPKGS))
        method = None
        for i in range(rng.randint(3, 5)):
            streams.append({'name': f'c{i}', 'flows': sle_flows(rng, pid), 'T': round(rng.uniform(*SLE_T), 2),
                            'P': 101325.0})
        steps = rng.randint(lo, hi)
    return {'world': 'C15', 'family': family, 'pkg': pid, 'method': method, 'streams': streams,
            'steps': steps, 'faults': rng.random() < tier.get('fault_rate', 0.4),
            'regions': list(tier.get('regions', [])), 'step_timeout': 60.0}


def lle_flows(r, ids):
    """{'L': [...], 'l': [...]}: 2-5 chemicals present, Water and at least one partially miscible partner"""
    n = len(ids)
    total = [0.0] * n
    total[ids.index('Water')] = round(r.uniform(0.5, 20.0), 3)
    partners = [i for i in ids if i in PARTIAL_WITH_WATER]
    must = r.choice(partners)
    for k, i in enumerate(ids):
        if i == 'Water':
            continue
        if i == must or r.random() < 0.6:
            total[k] = r.choice([round(r.uniform(0.2, 20.0), 3)] * 5 + [1e-3, 0.05])
    split = r.choice(['l', 'L', 'both'])
    if split == 'both':
        fr = [r.choice([0.0, 1.0, round(r.random(), 3)]) for _ in range(n)]
    else:
        fr = [1.0 if split == 'L' else 0.0] * n
    return {'L': [t * f for t, f in zip(total, fr)], 'l': [t * (1 - f) for t, f in zip(total, fr)]}


def sle_flows(r, pid, pure=None):
    solutes, solvents = SPKGS[pid]
    ids = solutes + solvents
    n = len(ids)
    s = [0.0] * n
    l = [0.0] * n
    if pure is None:
        pure = r.random() < 0.25
    for k, i in enumerate(ids):
        if i in solutes:
            if k == 0 or r.random() < 0.4:
                amt = round(r.uniform(0.1, 30.0), 3)
                f = r.choice([0.0, 1.0, round(r.random(), 3)])
                s[k] = amt * f
                l[k] = amt * (1 - f)
    if not pure:
        chosen = r.sample(solvents, r.randint(1, len(solvents)))
        for i in chosen:
            l[ids.index(i)] = round(r.uniform(0.5, 30.0), 3)
    else:
        # a PURE solute: only the first solute is present
        for k in range(1, n):
            s[k] = l[k] = 0.0
    return {'s': s, 'l': l}


class SplitWorld(BaseWorld):
    """C15"""

    def __init__(self, prop, cfg):
        super().__init__(prop, cfg)
        self.regions = set(cfg.get('regions', []))
        self.pk = lpackage(cfg['pkg'])
        tmo.settings.set_thermo(self.pk.thermo)
        self.family = cfg['family']
        self.phases = ('L', 'l') if self.family == 'lle' else ('l', 's')
        self.streams = {}
        self.log = {}        # name -> list of history entries since the stream was created
        self.init = {}
        for spec in cfg['streams']:
            self.init[spec['name']] = spec
            self.streams[spec['name']] = self.build(spec, 1.0)
            self.log[spec['name']] = []
        self.last = {}
        self.calib = {}
        self.task = None

    def track(self, name, value):
        if value > self.calib.get(name, 0.0):
            self.calib[name] = float(value)

    # ------------------------------------------------------------------ universe
    def build(self, spec, k):
        ms = tmo.MultiStream(None, phases=self.phases, T=spec['T'], P=spec['P'], thermo=self.pk.thermo)
        for ph in self.phases:
            ms.imol[ph] = np.array(spec['flows'][ph], dtype=float) * k
        return ms

    def rows(self, ms):
        out = {}
        for ph in self.phases:
            out[ph] = np.asarray(ms.imol[ph].to_array() if hasattr(ms.imol[ph], 'to_array') else ms.imol[ph],
                                 dtype=float).copy()
        return out

    def fresh_from(self, rows, T, P):
        ms = tmo.MultiStream(None, phases=self.phases, T=T, P=P, thermo=self.pk.thermo)
        for ph in self.phases:
            ms.imol[ph] = rows[ph].copy()
        return ms

    def replay_twin(self, name, k=1.0, upto=None):
        """A brand-new stream that receives the recorded public-API history of `name`
        (flows scaled by k), faults included."""
        ms = self.build(self.init[name], k)
        log = self.log[name] if upto is None else self.log[name][:upto]
        for ent in log:
            kind = ent[0]
            if kind == 'edit':
                ms.imol[ent[1]] = np.array(ent[2], dtype=float) * k
            elif kind == 'reset':
                ms.reset_cache()
            elif kind == 'query':
                try:
                    q = ms.lle
                    q.method = self.cfg['method']
                    q(T=ent[1], update=False)
                except Exception:
                    pass
            elif kind == 'restart':
                ms = restart_copy(ms)
            elif kind == 'lle':
                with faults.armed(ent[1].get('fault')):
                    try:
                        self.lle_call(ms, ent[1])
                    except Exception:
                        pass
            elif kind == 'sle':
                with faults.armed(ent[1].get('fault')):
                    try:
                        self.sle_call(ms, ent[1])
                    except Exception:
                        pass
        return ms

    def lle_call(self, ms, ev, use_cache=None):
        lle = ms.lle
        lle.method = self.cfg['method']
        kw = {}
        if ev.get('P'):
            kw['P'] = ev['P']
        if ev.get('top'):
            kw['top_chemical'] = ev['top']
        if ev.get('single_loop'):
            kw['single_loop'] = True
        uc = ev['use_cache'] if use_cache is None else use_cache
        if not uc:
            kw['use_cache'] = False
        lle(T=ev['T'], **kw)

    def sle_call(self, ms, ev):
        kw = {}
        if ev.get('solubility') is not None:
            kw['solubility'] = ev['solubility']
        ms.sle(ev['solute'], T=ev['T'], **kw)

    # ------------------------------------------------------------------ generation
    def memory(self, name):
        """what the stream's LLE solver remembers (read from the real object)"""
        lle = self.streams[name].lle
        if getattr(lle, '_lle_chemicals', None) is None or getattr(lle, '_K', None) is None:
            return None
        try:
            return {'T': float(lle._T), 'z': np.array(lle._z_mol, float),
                    'ids': [c.ID for c in lle._lle_chemicals], 'phi': float(lle._phi),
                    'two': bool(0 < lle._phi < 1)}
        except AttributeError:
            return None

    def current_lle_feed(self, name):
        rows = self.rows(self.streams[name])
        tot = rows['L'] + rows['l']
        idx = [k for k in range(len(tot)) if tot[k] != 0]
        z = tot[idx] / tot[idx].sum() if idx else np.array([])
        return idx, z

    def sle_situation(self, ev):
        """Two aged-solver situations in which sle.py computes its solubility from stale bookkeeping
        (SLE history independence is not promised by C15: counted, not judged)."""
        if ev.get('solubility') is not None:
            return None
        sle = self.streams[ev['stream']].sle
        rows = self.rows(self.streams[ev['stream']])
        tot = rows['s'] + rows['l']
        nonzero = frozenset(k for k in range(len(tot)) if tot[k] != 0)
        idx = getattr(sle, '_index', None)
        ks = self.pk.pos[ev['solute']]
        if getattr(sle, '_nonzero', None) != nonzero or len(nonzero) < 2:
            return None
        if isinstance(idx, list) and ks in idx and getattr(sle, '_solute_gamma_index', None) != idx.index(ks):
            return 'solute_switch_with_unchanged_chemicals'
        if isinstance(idx, slice):
            return 'computed_after_given_with_unchanged_chemicals'
        return None

    def region_of(self, ev):
        """Named known-finding regions (predicates over (event, state))."""
        out = []
        if ev['op'] != 'lle':
            return out
        mem = self.memory(ev['stream'])
        method = self.cfg['method']
        if mem is not None:
            idx, z = self.current_lle_feed(ev['stream'])
            same_chems = mem['ids'] == [self.pk.ids[k] for k in idx]
            if ((ev.get('use_cache', True) or ev.get('check') == 'cache') and same_chems
                    and ev['T'] <= mem['T'] - 1e-3
                    and len(z) == len(mem['z']) and bool((mem['z'] - z < 1e-5).all())):
                # probed lle call with cache reuse allowed, same chemicals, composition within the
                # cache tolerance, at a temperature LOWER than the remembered one
                out.append('C15-lle-cache-lower-T')
            if method == 'pseudo equilibrium' and ev.get('check') in ('fresh', 'cache', 'scale'):
                # default method on a solver that remembers ANY earlier solution: it starts from the
                # remembered K and never updates it (or caches the one-phase verdict such a start gave),
                # so both history clauses (fresh twin, cache vs no cache) can be influenced
                out.append('C15-lle-default-method-warm-start')
        return out

    def gen(self, rngs):
        r = rngs.args
        names = sorted(self.streams)
        for _ in range(40):
            if self.family == 'lle':
                op = rngs.sched.choices(['lle', 'edit', 'restart', 'reset_cache', 'lle_query'], [10, 3, 1, 1, 2.5])[0]
            else:
                op = rngs.sched.choices(['sle', 'edit', 'restart', 'reset_cache'], [10, 3, 1, 1])[0]
            # decanter / crystalliser tasks: a task works on ONE stream for 2-6 operations (so that the
            # solver of that stream accumulates the 1-4 earlier calls the property quantifies over),
            # interleaved with operations of other tasks on other streams
            if self.task is None or self.task['left'] <= 0 or self.task['stream'] not in self.streams:
                self.task = {'stream': rngs.sched.choice(names), 'left': rngs.sched.randint(2, 6)}
            if rngs.sched.random() < 0.75:
                s = self.task['stream']
                self.task['left'] -= 1
            else:
                s = r.choice(names)
            ev = self.candidate(op, s, r)
            if ev is None:
                continue
            if op in ('lle', 'sle') and self.cfg['faults'] and rngs.fault.random() < 0.3:
                ev['fault'] = self.gen_fault(rngs.fault)
            hit = [g for g in self.region_of(ev) if g in self.regions]
            if hit:
                self.stats['region:' + hit[0]] += 1
                continue
            if op == 'lle':
                reg = ('C15-lle-default-method-activity' if self.cfg['method'] == 'pseudo equilibrium'
                       else 'C15-lle-optimizer-activity')
                if reg in self.regions:
                    # the equal-activity clause is not evaluated for this method
                    self.stats['region:' + reg] += 1
                    ev['activity'] = False
            if self.pre(ev):
                return ev
            if op == 'sle' and self.sle_situation(ev) == 'computed_after_given_with_unchanged_chemicals':
                self.stats['avoided:sle_computed_after_given_can_segfault'] += 1
        return {'op': 'noop'}

    def gen_fault(self, r):
        return {'kind': 'solver_fail', 'site': r.choice(['aitken', 'aitken', 'aitken', 'fixed_point']),
                'nth': r.randint(1, 3), 'exc': r.choice(['RuntimeError', 'InfeasibleRegion', 'ValueError'])}

    def candidate(self, op, s, r):
        pk = self.pk
        if op == 'lle_query':
            # lle(T, update=False): asks for (chemicals, K, phi) at another temperature without touching the stream
            return {'op': 'lle_query', 'stream': s, 'T': float(r.choice([round(r.uniform(*LLE_T), 2), 300.0, 350.0, 320.0]))}
        if op == 'lle':
            mem = self.memory(s)
            if mem is not None and r.random() < 0.5:
                # another temperature, higher AND lower than the remembered one (or the same)
                T = mem['T'] + r.choice([-40., -15., -5., -1., 0., 0., 1., 5., 15., 40.])
                T = min(max(T, LLE_T[0]), LLE_T[1])
            else:
                T = r.choice([round(r.uniform(*LLE_T), 2), 300.0, 350.0, 298.15])
            idx, _ = self.current_lle_feed(s)
            present = [pk.ids[k] for k in idx]
            ev = {'op': 'lle', 'stream': s, 'T': float(T),
                  'top': r.choice([None] + present) if present else None,
                  'use_cache': r.random() < 0.7,
                  'check': r.choice(['fresh', 'fresh', 'cache', 'cache', 'scale', None]),
                  'activity': True}
            if ev['check'] == 'scale':
                ev['k'] = r.choice(K_SCALES)
            if self.cfg['method'] == 'pseudo equilibrium' and r.random() < 0.1:
                ev['single_loop'] = True
            if r.random() < 0.1:
                ev['P'] = r.choice([101325.0, 2e5])
            return ev
        if op == 'sle':
            solutes = pk.solutes
            rows = self.rows(self.streams[s])
            have = [i for i in solutes if rows['s'][pk.pos[i]] + rows['l'][pk.pos[i]] > 0]
            if not have:
                return None
            ev = {'op': 'sle', 'stream': s, 'solute': r.choice(have),
                  'T': float(r.choice([round(r.uniform(*SLE_T), 2)] * 3 + [300.0, 350.0]))}
            if r.random() < 0.35:
                ev['solubility'] = r.choice([0.0, 1e-3, 0.05, 0.2, 0.5, 0.9, round(r.random(), 3)])
            return ev
        if op == 'edit':
            if self.family == 'lle':
                fl = lle_flows(r, pk.ids)
            else:
                fl = sle_flows(r, pk.pid)
            if r.random() < 0.5:
                # small edit: one entry of one phase
                rows = self.rows(self.streams[s])
                ph = r.choice(list(self.phases))
                k = r.randrange(len(pk.ids))
                if self.family == 'sle' and ph == 's' and pk.ids[k] not in pk.solutes:
                    ph = 'l'
                row = rows[ph].tolist()
                if self.family == 'lle' and r.random() < 0.4:
                    # transfer between two chemicals of one row: the total flow and every OTHER chemical's
                    # overall mole fraction stay exactly what they were (a reuse test that looks at only
                    # some of the mole fractions must not mistake this for an unchanged feed)
                    src = [i for i, v in enumerate(row) if v > 0]
                    if src:
                        j = r.choice(src)
                        others = [i for i in range(len(row)) if i != j]
                        if others:
                            k2 = r.choice(others)
                            d = row[j] * r.choice([0.25, 0.5, 0.8])
                            row[j] -= d
                            row[k2] += d
                            return {'op': 'edit', 'stream': s, 'phase': ph, 'flows': row}
                row[k] = r.choice([0.0, round(r.uniform(0.1, 30.0), 3), row[k] * 2, row[k] + 1e-6])
                return {'op': 'edit', 'stream': s, 'phase': ph, 'flows': row}
            ph = r.choice(list(self.phases))
            return {'op': 'edit', 'stream': s, 'phase': ph, 'flows': fl[ph]}
        return {'op': op, 'stream': s}

    # ------------------------------------------------------------------ preconditions
    def lle_domain_ok(self, tot):
        ids = self.pk.ids
        present = [ids[k] for k in range(len(ids)) if tot[k] > 0]
        return (2 <= len(present) <= 5 and 'Water' in present
                and any(i in PARTIAL_WITH_WATER for i in present))

    def pre(self, ev):
        op = ev.get('op')
        if op == 'noop':
            return True
        if ev.get('stream') not in self.streams:
            return False
        n = len(self.pk.ids)
        rows = self.rows(self.streams[ev['stream']])
        if op == 'edit':
            if ev.get('phase') not in self.phases or len(ev.get('flows', ())) != n or min(ev['flows']) < 0:
                return False
            new = dict(rows)
            new[ev['phase']] = np.array(ev['flows'], float)
            tot = sum(new.values())
            if self.family == 'lle':
                return self.lle_domain_ok(tot)
            if ev['phase'] == 's' and any(ev['flows'][k] > 0 for k in range(n)
                                          if self.pk.ids[k] not in self.pk.solutes):
                return False
            return any(tot[self.pk.pos[i]] > 0 for i in self.pk.solutes)
        if op in ('restart', 'reset_cache'):
            return True
        if op == 'lle_query':
            if self.family != 'lle' or not (LLE_T[0] <= ev.get('T', 0) <= LLE_T[1]):
                return False
            return self.lle_domain_ok(rows['L'] + rows['l'])
        if op == 'lle':
            if self.family != 'lle' or not (LLE_T[0] <= ev.get('T', 0) <= LLE_T[1]):
                return False
            tot = rows['L'] + rows['l']
            if not self.lle_domain_ok(tot):
                return False
            if ev.get('top') is not None and ev['top'] not in self.pk.pos:
                return False
            if ev.get('check') not in (None, 'fresh', 'cache', 'scale'):
                return False
            if ev.get('check') == 'scale' and not (1e-3 <= ev.get('k', 0) <= 1e3):
                return False
            if any(g in self.regions for g in self.region_of(ev)):
                return False        # keeps the shrinker from drifting into a listed region (the generator diverts too)
            return True
        if op == 'sle':
            if self.family != 'sle' or not (SLE_T[0] <= ev.get('T', 0) <= SLE_T[1]):
                return False
            if ev.get('solute') not in self.pk.solutes:
                return False
            k = self.pk.pos[ev['solute']]
            if rows['s'][k] + rows['l'][k] <= 0:
                return False
            sol = ev.get('solubility')
            if not (sol is None or 0 <= sol < 1):
                return False
            if self.sle_situation(ev) == 'computed_after_given_with_unchanged_chemicals':
                # NOT GENERATED FOR SAFETY: after a given-solubility call sle.py leaves `_index = slice(None)`
                # behind; the next computed-solubility call then hands the jitted activity-coefficient
                # kernel a mole-fraction vector longer than its chemical list (out-of-bounds read: wrong
                # solubility at best, a segmentation fault of the worker at worst).  Reported by the builder.
                return False
            return True
        return False

    # ------------------------------------------------------------------ apply
    def call(self, ev, f):
        fault = ev.get('fault')
        with faults.armed(fault) as plan:
            try:
                out = ('ok', f())
            except Violation:
                raise
            except (KeyboardInterrupt, SystemExit):
                raise
            except Exception as e:
                out = ('exc', e)
        fired = bool(plan is not None and plan['fired'])
        if fired:
            self.stats['fault:' + plan['kind'] + ':' + plan['site']] += 1
            if out[0] == 'ok':
                self.stats['probe:fault_fired_and_call_returned'] += 1
        return out + (fired,)

    def apply(self, ev):
        op = ev.get('op')
        if op == 'noop':
            return 'noop'
        if not self.pre(ev):
            return 'skip:pre'
        self.stats['op:' + op] += 1
        name = ev['stream']
        with warnings.catch_warnings():
            warnings.simplefilter('ignore')
            if op == 'edit':
                self.streams[name].imol[ev['phase']] = np.array(ev['flows'], dtype=float)
                self.log[name].append(('edit', ev['phase'], list(ev['flows'])))
                self.last[name] = 'edit'
                return 'ok'
            if op == 'restart':
                self.streams[name] = restart_copy(self.streams[name])
                self.log[name].append(('restart',))
                self.stats['fault:restart'] += 1
                self.last[name] = 'restart'
                return 'ok'
            if op == 'reset_cache':
                self.streams[name].reset_cache()
                self.log[name].append(('reset',))
                self.last[name] = 'reset'
                return 'ok'
            if op == 'lle_query':
                ms = self.streams[name]
                before = self.rows(ms)
                T0, P0 = float(ms.T), float(ms.P)
                lle = ms.lle
                lle.method = self.cfg['method']
                try:
                    lle(T=ev['T'], update=False)
                    out = 'ok'
                except Exception as e:
                    self.stats['exc:lle_query:' + type(e).__name__] += 1
                    out = 'exc:' + type(e).__name__
                self.log[name].append(('query', ev['T']))
                self.last[name] = 'query'
                after = self.rows(ms)
                # (the query pools both liquids into 'L' - observed on the unchanged tree, nothing in C15 speaks about
                # it; only what C15/C03 do speak about is demanded: totals, T and P stay)
                tb = sum(before.values())
                ta = sum(after.values())
                if out == 'ok' and (not np.allclose(tb, ta, rtol=1e-12, atol=0.) or float(ms.T) != T0 or float(ms.P) != P0):
                    self.fail('query-changed-stream', f'lle(T={ev["T"]}, update=False) changed the totals, T or P of the '
                              f'stream', {'event': ev})
                return out
            self.stats['mechanism_ops'] += 1
            if op == 'lle':
                return self.do_lle(ev)
            return self.do_sle(ev)

    # ---------------------------------------------------------------- LLE
    def two_liquids(self, rows):
        """two liquid PHASES: both rows hold material and their compositions differ (two portions of
        one and the same liquid - the trivial solution of the optimisers - are one phase)"""
        L, l = rows['L'], rows['l']
        F = L.sum() + l.sum()
        if not (L.sum() > 1e-12 * F and l.sum() > 1e-12 * F):
            return False        # (a residue of 1e-16 of the feed left behind by the arithmetic is not a phase)
        if float(np.abs(L / L.sum() - l / l.sum()).max()) <= 1e-6:
            self.stats['trivial_split_of_one_liquid'] += 1
            return False
        return True

    def merged_if_trivial(self, r):
        """two 'phases' of identical composition are one liquid: how it is apportioned is immaterial"""
        L, l = r['L'], r['l']
        if L.sum() > 0 and l.sum() > 0:
            if float(np.abs(L / L.sum() - l / l.sum()).max()) < 1e-3:
                return {'L': np.zeros_like(L), 'l': L + l}
        return r

    def split_distance(self, a, b, F, allow_swap):
        a, b = self.merged_if_trivial(a), self.merged_if_trivial(b)
        if not self.two_liquids(a) and not self.two_liquids(b):
            return 0.0, False      # one liquid in both: how it is apportioned to the labels is immaterial
        d = max(float(np.abs(a['L'] - b['L']).max()), float(np.abs(a['l'] - b['l']).max())) / F
        if allow_swap:
            d2 = max(float(np.abs(a['L'] - b['l']).max()), float(np.abs(a['l'] - b['L']).max())) / F
            return min(d, d2), d2 < d
        return d, False

    def activities(self, rows, T):
        tot = rows['L'] + rows['l']
        idx = [k for k in range(len(tot)) if tot[k] > 0]
        g = self.pk.gamma(idx)
        L = rows['L'][idx]
        l = rows['l'][idx]
        with np.errstate(all='ignore'):
            xL = L / L.sum()
            xl = l / l.sum()
            aL = xL * np.asarray(g(xL, T), float)
            al = xl * np.asarray(g(xl, T), float)
        return idx, aL, al

    def do_lle(self, ev):
        name = ev['stream']
        ms = self.streams[name]
        before = self.rows(ms)
        F = float((before['L'] + before['l']).sum())
        T0, P0 = float(ms.T), float(ms.P)
        mem = self.memory(name)
        hist = len([e for e in self.log[name] if e[0] == 'lle'])
        upto = len(self.log[name])
        r = self.call(ev, lambda: self.lle_call(ms, ev))
        self.log[name].append(('lle', dict(ev)))
        detail = {'event': ev, 'package': self.pk.ids, 'method': self.cfg['method'],
                  'before': {k: v.tolist() for k, v in before.items()},
                  'history': [e[1] if e[0] in ('lle',) else list(e) for e in self.log[name][:-1]]}
        if r[0] == 'exc':
            e = r[1]
            self.last[name] = 'raised'
            if r[2]:
                self.stats['faulted_call_raised'] += 1
                return ['raised-after-fault', type(e).__name__]
            # differential exception rule: does a brand-new stream raise the same class?
            twin = self.fresh_from(before, T0, P0)
            try:
                with faults.disarmed():
                    self.lle_call(twin, ev)
                twin_exc = None
            except Exception as e2:
                twin_exc = e2
            if (mem is not None and self.cfg['method'] == 'pseudo equilibrium'
                    and 'C15-lle-default-method-warm-start' in self.regions
                    and (twin_exc is None or type(twin_exc) is not type(e))):
                # the default method starts from the remembered K (KF-C15-1): an exception only the aged
                # solver raises is that listed contamination
                self.stats['region:C15-lle-default-method-warm-start'] += 1
                return ['known-finding', type(e).__name__]
            if twin_exc is None or type(twin_exc) is not type(e):
                self.fail('aged-only-exception',
                          f'lle(T={ev["T"]}) raised {type(e).__name__}: {e} on the aged stream; a brand-new '
                          f'stream with the same contents '
                          f'{"returns normally" if twin_exc is None else "raises " + type(twin_exc).__name__}',
                          detail)
            self.stats['unsupported_input:' + type(e).__name__] += 1
            return ['unsupported', type(e).__name__]
        after = self.rows(ms)
        detail['after'] = {k: v.tolist() for k, v in after.items()}
        two = self.two_liquids(after)
        self.stats['lle_two_phase' if two else 'lle_one_phase'] += 1
        self.stats[f'lle_history_{min(hist, 4)}'] += 1
        if r[2]:
            self.stats['faulted_call_returned'] += 1
        # material: the call redistributes the feed between the two liquids
        tot_b = before['L'] + before['l']
        tot_a = after['L'] + after['l']
        if np.abs(tot_a - tot_b).max() > 1e-9 * F or (after['L'] < -1e-12 * F).any() or (after['l'] < -1e-12 * F).any():
            self.fail('lle-feed', 'the two liquids do not add up to the feed (or a flow is negative)', detail)
        # (d) top chemical
        if ev.get('top') and two:
            k = self.pk.pos[ev['top']]
            mL = after['L'] * self.pk.MW
            ml = after['l'] * self.pk.MW
            wL = mL[k] / mL.sum()
            wl = ml[k] / ml.sum()
            self.stats['judged:top'] += 1
            if wL < wl - TOP_TOL:
                self.fail('top-chemical', f'top chemical {ev["top"]} has mass fraction {wL!r} in L and '
                                          f'{wl!r} in l', detail)
        # (a0) coarse form of the equal-activity clause, evaluated for every method (also where the listed
        # findings switch the fine clause off): a chemical that makes up more than 5 % of one liquid cannot be
        # entirely absent from the other one - its activity there would be zero
        if two:
            xL = after['L'] / after['L'].sum()
            xl = after['l'] / after['l'].sum()
            gone = ((xL > 0.05) & (after['l'] == 0.)) | ((xl > 0.05) & (after['L'] == 0.))
            self.stats['judged:coarse-activity'] += 1
            if gone.any():
                self.stats['probe:bulk_chemical_absent_from_other_liquid'] += 1
                if COARSE_ACTIVITY_ORACLE:
                    kk = int(np.argmax(gone))
                    self.fail('equal-activity', f'lle(T={ev["T"]}, method={self.cfg["method"]!r}) returned two liquids; '
                              f'{self.pk.ids[kk]} makes up {max(xL[kk], xl[kk]):.3g} of one of them and is entirely '
                              f'absent from the other (activity zero)', detail)
        # (a) equal activities
        if two and ev.get('activity', True):
            idx, aL, al = self.activities(after, ev['T'])
            with np.errstate(all='ignore'):
                ratio = np.abs(np.log(aL / al))
            ratio = np.where(np.isfinite(ratio), ratio, np.inf)
            method = self.cfg['method']
            if method == 'pseudo equilibrium':
                tol = np.full(len(idx), ACT_TOL_PE)
                unit = tol
            else:
                # a minimiser that stops at a Gibbs-energy resolution OPT_FTOL (per mole of feed) leaves
                # chemical i displaced by up to sqrt(2 f_tol m_i), m_i = its smaller phase amount per mole
                # of feed, i.e. a mismatch of ln-activities of sqrt(2 f_tol / m_i)
                m = np.minimum(after['L'][idx], after['l'][idx]) / F
                with np.errstate(all='ignore'):
                    unit = np.where(m > 0, np.sqrt(2 * OPT_FTOL / np.where(m > 0, m, 1.0)), np.inf)
                tol = ACT_C * unit
            with np.errstate(all='ignore'):
                rel = np.where(np.isfinite(unit), ratio / unit, 0.0)
            self.stats['judged:activity'] += 1
            self.track('activity_over_unit:' + method + (':aged' if mem else ':fresh'), float(rel.max()))
            if (ratio > tol).any():
                kk = int(np.argmax(np.where(ratio > tol, rel, -1.0)))
                detail['activity_L'] = aL.tolist()
                detail['activity_l'] = al.tolist()
                self.fail('equal-activity',
                          f'lle(T={ev["T"]}, method={method!r}) returned two liquids in which the '
                          f'activity of {self.pk.ids[idx[kk]]} is {aL[kk]:.6g} in L and {al[kk]:.6g} in l '
                          f'(|ln ratio| {ratio[kk]:.3g}, tolerance {tol[kk]:.3g})', detail)
        allow_swap = not ev.get('top')
        check = ev.get('check')
        if check == 'fresh':
            twin = self.fresh_from(before, T0, P0)
            with faults.disarmed():
                try:
                    self.lle_call(twin, ev)
                    tw = self.rows(twin)
                except Exception as e:
                    tw = None
                    self.stats['twin_raised:' + type(e).__name__] += 1
            if tw is not None:
                d, swapped = self.split_distance(after, tw, F, allow_swap)
                self.stats['judged:fresh'] += 1
                if swapped:
                    self.stats['label_swap_vs_fresh_without_top_chemical'] += 1
                self.track('fresh:' + self.cfg['method'], d)
                if d > SPLIT_TOL and not self.optimizer_unreliable_here(before, T0, P0, ev):
                    detail['fresh'] = {k: v.tolist() for k, v in tw.items()}
                    detail['remembered'] = None if mem is None else {'T': mem['T'], 'ids': mem['ids'],
                                                                     'z': mem['z'].tolist(), 'phi': mem['phi']}
                    self.fail('fresh-twin',
                              f'lle(T={ev["T"]}, use_cache={ev["use_cache"]}) after {hist} earlier call(s): the '
                              f'aged solver\'s split differs from the split of a brand-new stream with the same '
                              f'contents by {d:.3g} of the feed', detail)
        elif check == 'cache':
            other = self.replay_twin(name, upto=upto)
            with faults.armed(ev.get('fault')):
                try:
                    self.lle_call(other, ev, use_cache=not ev['use_cache'])
                    tw = self.rows(other)
                except Exception as e:
                    tw = None
                    self.stats['twin_raised:' + type(e).__name__] += 1
            if tw is not None:
                d, swapped = self.split_distance(after, tw, F, allow_swap)
                self.stats['judged:cache'] += 1
                if swapped:
                    self.stats['label_swap_cache_vs_nocache_without_top_chemical'] += 1
                self.track('cache:' + self.cfg['method'], d)
                if d > SPLIT_TOL and not self.optimizer_unreliable_here(before, T0, P0, ev):
                    detail['other'] = {k: v.tolist() for k, v in tw.items()}
                    self.fail('cache-vs-nocache',
                              f'lle(T={ev["T"]}) after {hist} earlier call(s): use_cache={ev["use_cache"]} and '
                              f'use_cache={not ev["use_cache"]} give splits that differ by {d:.3g} of the feed',
                              detail)
        elif check == 'scale':
            k = ev['k']
            other = self.replay_twin(name, k=k, upto=upto)
            ob = {ph: v / k for ph, v in self.rows(other).items()}
            d0 = max(float(np.abs(ob['L'] - before['L']).max()), float(np.abs(ob['l'] - before['l']).max())) / F
            reg0 = ('C15-lle-default-method-activity' if self.cfg['method'] == 'pseudo equilibrium'
                    else 'C15-lle-optimizer-activity')
            if d0 > SCALE_TOL and reg0 in self.regions:
                # the scaled replay already differs BEFORE the probed call: an earlier call of a method that does
                # not converge gave another split (or another labelling) at the other scale (KF-C15-1 / KF-C15-3);
                # nothing about this call can be concluded
                self.stats['region:' + reg0] += 1
                other = None
            with faults.armed(ev.get('fault')):
                try:
                    if other is None:
                        tw = None
                    else:
                        self.lle_call(other, ev)
                        tw = self.rows(other)
                except Exception as e:
                    tw = None
                    self.stats['twin_raised:' + type(e).__name__] += 1
            if tw is not None:
                tw = {ph: v / k for ph, v in tw.items()}
                d, swapped = self.split_distance(after, tw, F, False)
                self.stats['judged:scale'] += 1
                self.track('scale:' + self.cfg['method'], d)
                if d > SCALE_TOL and not self.optimizer_unreliable_here(before, T0, P0, ev, k):
                    detail['scaled_twin_over_k'] = {kk: v.tolist() for kk, v in tw.items()}
                    self.fail('scaling', f'lle(T={ev["T"]}) on the same history with every flow multiplied by '
                                         f'{k!r} gives flows/k that differ by {d:.3g} of the feed', detail)
        m2 = self.memory(name)
        self.last[name] = ('two' if two else 'one', bool(mem), None if mem is None else
                           (ev['T'] > mem['T']) - (ev['T'] < mem['T']), bool(ev['use_cache']), check,
                           bool(ev.get('top')), bool(r[2]), None if m2 is None else m2['two'])
        return ['ok', [float(v).hex() for v in after['L']], [float(v).hex() for v in after['l']]]

    def optimizer_unreliable_here(self, before, T0, P0, ev, k=None):
        """KF-C15-3 judged at the oracle: the optimiser-based methods return clearly different splits for
        the SAME feed at different flow scales on some inputs (no history involved).  True when brand-new
        streams with these contents, flashed at scale 1, at the probed scale and at scale 3.7, disagree
        among themselves - then a disagreement of an aged/cached/scaled run is not attributable to history."""
        default = self.cfg['method'] == 'pseudo equilibrium'
        region = 'C15-lle-default-method-activity' if default else 'C15-lle-optimizer-activity'
        if region not in self.regions:
            return False
        F = float((before['L'] + before['l']).sum())
        outs = []
        # the same contents as they are, and with the two liquid rows pooled into one (no trace amounts left in
        # the other row): the listed methods do not converge, so even last-bit differences of the feed can flip
        # the split they return (KF-C15-1 for the default method, KF-C15-3 for the optimisers)
        pooled = {'L': before['L'] * 0., 'l': before['L'] + before['l']}
        for base in (before, pooled):
            for kk in [1.0, 3.7] + ([k] if k else []):
                tw = self.fresh_from({ph: v * kk for ph, v in base.items()}, T0, P0)
                try:
                    with faults.disarmed():
                        self.lle_call(tw, ev, use_cache=False)
                    outs.append({ph: v / kk for ph, v in self.rows(tw).items()})
                except Exception:
                    return True
        for o in outs[1:]:
            d, _ = self.split_distance(outs[0], o, F, True)
            if d > SCALE_TOL:
                self.stats['region:' + region] += 1
                return True
        return False

    # ---------------------------------------------------------------- SLE
    def solubility_at(self, rows, solute, T):
        """eutectic solubility (mole fraction) with the solute's activity coefficient evaluated by the
        harness at the RETURNED liquid composition (the fixed point sle.py iterates to)"""
        from chemicals import solubility_eutectic
        pk = self.pk
        c = pk.chem[solute]
        liq = rows['l']
        idx = [k for k in range(len(liq)) if liq[k] > 0]
        ks = pk.pos[solute]
        with np.errstate(all='ignore'):
            Cpl = float(c.Cn.l(T))
            Cps = float(c.Cn.s(T))
            if ks in idx and len(idx) > 1:
                x = liq[idx] / liq[idx].sum()
                g = float(np.asarray(pk.gamma(idx)(x, T), float)[idx.index(ks)])
            else:
                g = 1.0
            return float(solubility_eutectic(T, float(c.Tm), float(c.Hfus), Cpl, Cps, g))

    def do_sle(self, ev):
        name = ev['stream']
        ms = self.streams[name]
        pk = self.pk
        before = self.rows(ms)
        T0, P0 = float(ms.T), float(ms.P)
        hist = len([e for e in self.log[name] if e[0] == 'sle'])
        situation = self.sle_situation(ev)
        if situation:
            self.stats['stat:sle_situation:' + situation] += 1
        _SLE_REC['x'] = None
        r = self.call(ev, lambda: self.sle_call(ms, ev))
        rec = _SLE_REC['x']
        self.log[name].append(('sle', dict(ev)))
        detail = {'event': ev, 'package': pk.ids, 'before': {k: v.tolist() for k, v in before.items()},
                  'history': [e[1] if e[0] == 'sle' else list(e) for e in self.log[name][:-1]]}
        if r[0] == 'exc':
            e = r[1]
            self.last[name] = 'raised'
            if r[2]:
                self.stats['faulted_call_raised'] += 1
                return ['raised-after-fault', type(e).__name__]
            twin = self.fresh_from(before, T0, P0)
            try:
                with faults.disarmed():
                    self.sle_call(twin, ev)
                twin_exc = None
            except Exception as e2:
                twin_exc = e2
            if twin_exc is None or type(twin_exc) is not type(e):
                # C15's solid-liquid clauses speak about calls that return; they promise no history
                # independence for SLE, so an exception only the aged solver raises is a statistic
                self.stats['sle_aged_only_exception:' + type(e).__name__] += 1
                return ['aged-only-exception', type(e).__name__]
                self.fail('aged-only-exception',
                          f'sle({ev["solute"]!r}, T={ev["T"]}, solubility={ev.get("solubility")}) raised '
                          f'{type(e).__name__}: {e} on the aged stream; a brand-new stream with the same contents '
                          f'{"returns normally" if twin_exc is None else "raises " + type(twin_exc).__name__}',
                          detail)
            self.stats['unsupported_input:' + type(e).__name__] += 1
            return ['unsupported', type(e).__name__]
        after = self.rows(ms)
        detail['after'] = {k: v.tolist() for k, v in after.items()}
        self.stats[f'sle_history_{min(hist, 4)}'] += 1
        ks = pk.pos[ev['solute']]
        present = float(before['s'][ks] + before['l'][ks])
        scale = float(before['s'].sum() + before['l'].sum())
        # only the solute moves
        for ph in ('s', 'l'):
            d = np.abs(after[ph] - before[ph])
            d[ks] = 0.0
            if d.max() > SLE_RTOL * scale:
                kk = int(np.argmax(d))
                self.fail('sle-only-solute', f'sle({ev["solute"]!r}) changed {pk.ids[kk]} in phase {ph!r} from '
                                             f'{before[ph][kk]!r} to {after[ph][kk]!r}', detail)
        if abs(after['s'][ks] + after['l'][ks] - present) > SLE_RTOL * scale or after['s'][ks] < -SLE_RTOL * scale \
                or after['l'][ks] < -SLE_RTOL * scale:
            self.fail('sle-only-solute', f'solute total changed from {present!r} to '
                                         f'{after["s"][ks] + after["l"][ks]!r} (or a negative flow)', detail)
        self.stats['judged:sle-only-solute'] += 1
        dissolved = float(after['l'][ks])
        others = float(before['s'].sum() + before['l'].sum() - present)
        pure = others == 0.0
        Tm = float(pk.chem[ev['solute']].Tm)
        given = ev.get('solubility')
        if pure and given is None:
            self.stats['judged:sle-pure'] += 1
            if ev['T'] > Tm and after['s'][ks] > SLE_RTOL * scale:
                self.fail('sle-pure', f'pure {ev["solute"]} at T={ev["T"]} above Tm={Tm}: {after["s"][ks]!r} '
                                      f'of {present!r} left in the solid', detail)
            if ev['T'] < Tm and after['l'][ks] > SLE_RTOL * scale:
                self.fail('sle-pure', f'pure {ev["solute"]} at T={ev["T"]} below Tm={Tm}: {after["l"][ks]!r} '
                                      f'of {present!r} put in the liquid', detail)
        elif not pure:
            solvent = float(after['l'].sum() - after['l'][ks])
            # "the solubility it computed (or was given)": the value SLE._solve_x handed back during
            # this call (pass-through recorder) or the argument
            x = given if given is not None else rec
            if x is None:
                self.stats['sle_no_solubility_computed'] += 1
            else:
                x = float(x)
                with np.errstate(all='ignore'):
                    if x >= 1 or not math.isfinite(x):
                        cap = present
                    elif x <= 0:
                        cap = 0.0
                    else:
                        cap = min(present, solvent * x / (1 - x))
                self.stats['judged:sle-bound'] += 1
                detail['solubility'] = x
                detail['cap'] = cap
                if cap > 0:
                    self.track('sle_bound:' + ('given' if given is not None else 'computed'),
                               max(0.0, dissolved / cap - 1.0))
                if dissolved > cap * (1 + SLE_BOUND_RTOL) + SLE_RTOL * scale:
                    self.fail('sle-bound',
                              f'sle({ev["solute"]!r}, T={ev["T"]}, solubility={given}) dissolved {dissolved!r} of '
                              f'{present!r}; the {"given" if given is not None else "computed"} solubility '
                              f'{x!r} allows {cap!r} in {solvent!r} of solvent', detail)
                if given is None and solvent > 0:
                    # statistic: the eutectic solubility re-evaluated by the harness at the returned liquid
                    xi = self.solubility_at(after, ev['solute'], ev['T'])
                    if math.isfinite(xi) and 0 < xi < 1 and dissolved > min(present, solvent * xi / (1 - xi)) * 1.01:
                        self.stats['stat:sle_dissolved_exceeds_solubility_reevaluated_by_harness'] += 1
                        if situation:
                            self.stats['stat:...of_which_in_situation:' + situation] += 1
        # history independence is NOT promised for SLE by the property: statistic only
        twin = self.fresh_from(before, T0, P0)
        try:
            with faults.disarmed():
                self.sle_call(twin, ev)
            tw = self.rows(twin)
            if abs(tw['l'][ks] - after['l'][ks]) > 1e-6 * max(present, 1e-300):
                self.stats['stat:sle_differs_from_fresh_twin'] += 1
        except Exception:
            self.stats['stat:sle_fresh_twin_raises'] += 1
        self.last[name] = ('pure' if pure else 'mix', given is not None, ev['T'] > Tm,
                           dissolved == 0.0, dissolved >= present, min(hist, 2), bool(r[2]))
        return ['ok', [float(v).hex() for v in after['s']], [float(v).hex() for v in after['l']]]

    # ------------------------------------------------------------------ measures
    def abstract_state(self):
        out = [self.family, self.cfg['pkg'], self.cfg['method']]
        for n in sorted(self.streams):
            rows = self.rows(self.streams[n])
            out.append((n, tuple(int((rows[ph] > 0).sum()) for ph in self.phases), self.last.get(n)))
        return out

    def shared_touch(self, ev):
        if ev.get('op') in ('lle', 'sle'):
            return (ev['stream'], ev['op'], ev.get('check'), bool(ev.get('fault')))
        if ev.get('op') in ('edit', 'restart', 'reset_cache', 'lle_query'):
            return (ev['stream'], ev['op'])
        return None


# ====================================================================== engine interface

def make_cfg(rng, prop, tier):
    if prop == 'C08':
        return make_cfg_c08(rng, tier)
    if prop == 'C15':
        return make_cfg_c15(rng, tier)
    raise ValueError(prop)


def World(prop, cfg):
    if cfg['world'] == 'C08':
        return PointWorld(prop, cfg)
    return SplitWorld(prop, cfg)


def simplify_event(ev):
    out = []
    op = ev.get('op')
    if op == 'lle':
        if ev.get('check'):
            e = dict(ev)
            e['check'] = None
            out.append(e)
        if ev.get('top'):
            e = dict(ev)
            e['top'] = None
            out.append(e)
        for T in (300.0, 350.0):
            if ev['T'] != T:
                e = dict(ev)
                e['T'] = T
                out.append(e)
        for key in ('single_loop', 'P'):
            if ev.get(key):
                e = dict(ev)
                e.pop(key)
                out.append(e)
    if op == 'sle':
        for T in (300.0, 350.0):
            if ev['T'] != T:
                e = dict(ev)
                e['T'] = T
                out.append(e)
    if op == 'edit' and 'flows' in ev:
        fl = [0.0 if v == 0 else float(round(v)) or 1.0 for v in ev['flows']]
        if fl != list(ev['flows']):
            e = dict(ev)
            e['flows'] = fl
            out.append(e)
    if 'q' in ev:
        q = ev['q']
        if q.get('via') != 'stream':
            n = len(q['ids'])
            if n > 2:
                for j in range(n):
                    if op == 'permute':
                        break
                    q2 = dict(q)
                    q2['ids'] = q['ids'][:j] + q['ids'][j + 1:]
                    zz = q['z'][:j] + q['z'][j + 1:]
                    if sum(zz) <= 0:
                        continue
                    q2['z'] = [v / sum(zz) for v in zz]
                    e = dict(ev)
                    e['q'] = q2
                    out.append(e)
            z = [0.0 if v == 0 else round(v, 2) or v for v in q['z']]
            if op != 'scale' or True:
                t = sum(z)
                z = [v / t for v in z]      # keep the composition normalised (sum == 1 up to rounding)
            if z != list(q['z']) and abs(sum(z) - 1.0) < 1e-15:
                q2 = dict(q)
                q2['z'] = z
                e = dict(ev)
                e['q'] = q2
                out.append(e)
        v = q['value']
        v2 = float(round(v, 0)) if q['spec'] == 'T' else float(round(v, -3))
        if v2 != v:
            q2 = dict(q)
            q2['value'] = v2
            e = dict(ev)
            e['q'] = q2
            out.append(e)
    return out
