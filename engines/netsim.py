"""netsim: flowsheet wiring (C18) and network ordering under seeded hash order (C19).

Real code: thermosteam.network (AbstractUnit, AbstractStream, StreamSequence, pipes,
Connection, Network).  Stubs: unit/stream subclasses whose only own behaviour is a
seeded __hash__ (seam S7).  The oracle of C18 is the property's invariant evaluated on
all units and streams after every operation; preconditions of the property are
evaluated on the real port state, which equals the model state because the invariant
held at every earlier step.
"""
import warnings

from sim import env
from sim.kernel import BaseWorld, Violation, subseed

env.import_thermosteam()
import thermosteam as tmo  # noqa: E402
from thermosteam import network as nw  # noqa: E402
tmo.settings.set_thermo(['Water'], cache=True)
from sim import seams  # noqa: E402

NAME = 'netsim'

UNIT_KINDS = {
    # name: (n_ins, n_outs, ins_fixed, outs_fixed)
    'F11': (1, 1, True, True),
    'F12': (1, 2, True, True),
    'F21': (2, 1, True, True),
    'F22': (2, 2, True, True),
    'F33': (3, 3, True, True),
    'V21': (2, 1, False, True),   # mixer-like: variable inlets
    'V12': (1, 2, True, False),   # splitter-like: variable outlets
    'V22': (2, 2, False, False),
}

C18_OPS = [
    'new_unit', 'set_item', 'set_item', 'set_item', 'set_slice', 'append', 'insert', 'pop',
    'remove', 'replace', 's_disconnect_source', 's_disconnect_sink', 's_disconnect',
    'pipe_in', 'pipe_out', 'pipe_units', 'pipe_streams_in', 'pipe_streams_out',
    'u_disconnect', 'u_insert', 'take_place_of', 'replace_with', 'get_connection',
    'reconnect', 'placeholder_op', 'bad_slice',
]


def make_cfg(rng, prop, tier):
    if prop == 'C18':
        lo, hi = tier.get('steps', (20, 60))
        ops = list(dict.fromkeys(C18_OPS))
        # swarm: each run enables a random subset of operation kinds
        enabled = [o for o in ops if rng.random() < 0.75]
        for must in ('new_unit', 'set_item'):
            if must not in enabled:
                enabled.append(must)
        return {
            'world': 'C18', 'steps': rng.randint(lo, hi),
            'n_streams': rng.randint(3, 10), 'max_units': rng.randint(2, 6),
            'kinds': rng.sample(sorted(UNIT_KINDS), rng.randint(2, len(UNIT_KINDS))),
            'hash_seed': rng.getrandbits(32), 'ops': enabled,
            'regions': list(tier.get('regions', [])),
            'docked_construct': rng.random() < 0.5,
        }
    if prop == 'C19':
        return {
            'world': 'C19', 'steps': rng.randint(*tier.get('steps', (4, 10))),
            'n_units': rng.randint(2, 10), 'back_edges': rng.choice([0, 0, 1, 2, 3]),
            'feed_ties': rng.random() < 0.3, 'self_loops': rng.random() < 0.2,
            # persistent: the unit and stream OBJECTS live through the run; networks are rebuilt from them after
            # re-wiring (two units of equal shape exchange all their connections) and after refused assignments
            'persistent': rng.random() < 0.4,
            'sections': rng.random() < 0.4,
            'regions': list(tier.get('regions', [])),
        }
    raise ValueError(prop)


def World(prop, cfg):
    if cfg['world'] == 'C18':
        return WiringWorld(prop, cfg)
    return OrderWorld(prop, cfg)


# ====================================================================== C18

class WiringWorld(BaseWorld):

    def __init__(self, prop, cfg):
        super().__init__(prop, cfg)
        warnings.filterwarnings('ignore')
        seams.reset_network_globals()
        seams.reset_hash(cfg['hash_seed'])
        cl = seams.stub_classes()
        self.HStream = cl['HStream']
        self.unit_class = cl['unit_class']
        self.streams = {}
        self.units = {}
        self.saved = {}      # name -> Connection
        self.n_auto = 0
        for i in range(cfg['n_streams']):
            self.streams[f's{i}'] = self.HStream(f'.s{i}')
        self.regions = set(cfg.get('regions', []))

    # ------------------------------------------------------------ helpers
    def _ports(self, uname, side):
        u = self.units[uname]
        return u._ins if side == 'ins' else u._outs

    def _docked(self, s, side):
        return (s._sink if side == 'ins' else s._source) is not None

    def _in_list(self, seq, s):
        return any(x is s for x in seq._streams)

    def _index(self, seq, s):
        for i, x in enumerate(seq._streams):
            if x is s:
                return i
        return None

    def _name_of(self, s):
        for k, v in self.streams.items():
            if v is s:
                return k
        return None

    def _adopt_new_streams(self):
        known = {id(v) for v in self.streams.values()}
        for uname in sorted(self.units):
            u = self.units[uname]
            for seq in (u._ins, u._outs):
                for s in seq._streams:
                    if isinstance(s, nw.AbstractStream) and id(s) not in known:
                        self.n_auto += 1
                        self.streams[f'a{self.n_auto}'] = s
                        known.add(id(s))

    def _stream(self, name):
        if name is None:
            return None
        return self.streams.get(name)

    # ------------------------------------------------------------ generation
    def gen(self, rngs):
        r = rngs.args
        for _ in range(60):
            op = rngs.sched.choice(self.cfg['ops'])
            ev = self._candidate(op, r)
            if ev is None:
                continue
            if self._in_region(ev):
                self.stats[f'region:{self._in_region(ev)}'] += 1
                continue
            if self.pre(ev):
                return ev
        return {'op': 'noop'}

    def _in_region(self, ev):
        if 'C18-pop-variable' in self.regions and ev['op'] == 'pop':
            seq = self._ports(ev['unit'], ev['side'])
            if not seq._fixed_size:
                return 'C18-pop-variable'
        return None

    def _rand_unit(self, r):
        if not self.units:
            return None
        return r.choice(sorted(self.units))

    def _rand_stream(self, r, allow_none=False):
        names = sorted(self.streams)
        if allow_none and r.random() < 0.15:
            return None
        return r.choice(names)

    def _candidate(self, op, r):
        side = r.choice(['ins', 'outs'])
        if op == 'new_unit':
            if len(self.units) >= self.cfg['max_units']:
                return None
            kind = r.choice(self.cfg['kinds'])
            n_ins, n_outs, fi, fo = UNIT_KINDS[kind]

            def spec(n, fixed, side):
                mode = r.choice(['default', 'none', 'list', 'single', 'list'])
                if mode in ('default', 'none'):
                    return mode
                k = r.randint(0, n if fixed else n + 1)
                pool = [s for s in sorted(self.streams)
                        if self.cfg['docked_construct'] or not self._docked(self.streams[s], side)]
                r.shuffle(pool)
                if mode == 'single':
                    return pool[0] if pool else 'none'
                out = []
                for s in pool[:k]:
                    out.append(None if (not fixed and r.random() < 0.1) else s)
                return out
            ins = spec(n_ins, fi, 'ins')
            outs = spec(n_outs, fo, 'outs')
            ev = {'op': op, 'name': f'u{len(self.units)}', 'kind': kind, 'ins': ins, 'outs': outs}
            if r.random() < 0.3:
                ev['id'] = 'aux'      # unregistered (dotted) IDs may repeat, as auxiliary units' do
            return ev
        u = self._rand_unit(r)
        if op in ('s_disconnect_source', 's_disconnect_sink', 's_disconnect'):
            return {'op': op, 'stream': self._rand_stream(r)}
        if op == 'get_connection':
            return {'op': op, 'stream': self._rand_stream(r), 'slot': f'c{r.randint(0, 2)}'}
        if op == 'reconnect':
            if not self.saved:
                return None
            return {'op': op, 'slot': r.choice(sorted(self.saved))}
        if u is None:
            return None
        seq = self._ports(u, side)
        n = len(seq._streams)
        if op == 'set_item':
            hi = n - 1 if seq._fixed_size else n
            if hi < 0:
                return None
            return {'op': op, 'unit': u, 'side': side, 'index': r.randint(0, hi),
                    'stream': self._rand_stream(r, allow_none=True)}
        if op == 'set_slice':
            a = r.randint(0, n)
            b = r.randint(a, n)
            if r.random() < 0.4:
                a, b = 0, None
            k = r.randint(0, 3)
            names = r.sample(sorted(self.streams), min(k, len(self.streams)))
            names = [None if r.random() < 0.1 else x for x in names]
            return {'op': op, 'unit': u, 'side': side, 'start': a, 'stop': b, 'streams': names}
        if op == 'bad_slice':
            # F7: a slice assignment that has to be refused (one item is not a stream); the caller catches the
            # TypeError and carries on - the connections must be what they were
            a = r.randint(0, n)
            b = r.randint(a, n)
            if r.random() < 0.5:
                a, b = 0, None
            k = r.randint(0, 3)
            names = r.sample(sorted(self.streams), min(k, len(self.streams)))
            return {'op': op, 'unit': u, 'side': side, 'start': a, 'stop': b, 'streams': names,
                    'junk_at': r.randint(0, len(names))}
        if op in ('append', 'insert'):
            ev = {'op': op, 'unit': u, 'side': side, 'stream': self._rand_stream(r)}
            if op == 'insert':
                ev['index'] = r.randint(0, n)
            return ev
        if op == 'pop':
            if n == 0:
                return None
            return {'op': op, 'unit': u, 'side': side, 'index': r.randint(-1, n - 1)}
        if op == 'remove':
            real = [self._name_of(s) for s in seq._streams if isinstance(s, nw.AbstractStream)]
            real = [x for x in real if x]
            if not real:
                return None
            return {'op': op, 'unit': u, 'side': side, 'stream': r.choice(real)}
        if op == 'replace':
            real = [self._name_of(s) for s in seq._streams if isinstance(s, nw.AbstractStream)]
            real = [x for x in real if x]
            if not real:
                return None
            return {'op': op, 'unit': u, 'side': side, 'stream': r.choice(real),
                    'other': self._rand_stream(r, allow_none=True)}
        if op == 'pipe_in':      # s-i-u   or  s**i**u
            hi = len(self.units[u]._ins._streams) - (1 if self.units[u]._ins._fixed_size else 0)
            if hi < 0:
                return None
            return {'op': op, 'unit': u, 'index': r.randint(0, hi), 'stream': self._rand_stream(r),
                    'pow': r.random() < 0.3}
        if op == 'pipe_out':     # u-i-s: u.outs[i] = s  via  u**i**s / i**s
            hi = len(self.units[u]._outs._streams) - (1 if self.units[u]._outs._fixed_size else 0)
            if hi < 0:
                return None
            return {'op': op, 'unit': u, 'index': r.randint(0, hi), 'stream': self._rand_stream(r),
                    'pow': r.random() < 0.5}
        if op == 'pipe_units':
            v = self._rand_unit(r)
            return {'op': op, 'unit': u, 'other': v}
        if op in ('pipe_streams_in', 'pipe_streams_out'):
            k = r.randint(1, 3)
            names = r.sample(sorted(self.streams), min(k, len(self.streams)))
            form = r.choice(['tuple', 'list', 'single'])
            if form == 'single':
                names = names[:1]
            return {'op': op, 'unit': u, 'streams': names, 'form': form}
        if op == 'u_disconnect':
            mode = r.choice(['all', 'all', 'index', 'join'])
            ev = {'op': op, 'unit': u, 'mode': mode}
            if mode == 'index':
                uu = self.units[u]
                ni, no = len(uu._ins._streams), len(uu._outs._streams)
                ev['inlets'] = sorted(r.sample(range(ni), r.randint(0, ni))) if ni else []
                ev['outlets'] = sorted(r.sample(range(no), r.randint(0, no))) if no else []
            return ev
        if op == 'u_insert':
            cands = []
            for un in sorted(self.units):
                for sn in sorted(self.streams):
                    e = {'op': op, 'unit': un, 'stream': sn}
                    if self.pre(e):
                        cands.append(e)
            return r.choice(cands) if cands else None
        if op in ('take_place_of', 'replace_with'):
            v = self._rand_unit(r)
            if op == 'replace_with' and r.random() < 0.3:
                v = None
            return {'op': op, 'unit': u, 'other': v}
        if op == 'placeholder_op':
            miss = [i for i, s in enumerate(seq._streams) if isinstance(s, nw.AbstractMissingStream)]
            if not miss:
                return None
            return {'op': op, 'unit': u, 'side': side, 'index': r.choice(miss),
                    'what': r.choice(['disconnect', 'disconnect_source', 'disconnect_sink',
                                      'remove', 'reassign'])}
        return None

    # ------------------------------------------------------------ preconditions
    def pre(self, ev):
        op = ev['op']
        if op == 'noop':
            return True
        S = self.streams
        U = self.units
        if op == 'new_unit':
            if ev['name'] in U or len(U) >= 8:
                return False
            n_ins, n_outs, fi, fo = UNIT_KINDS[ev['kind']]
            for spec, n, fixed, side in ((ev['ins'], n_ins, fi, 'ins'), (ev['outs'], n_outs, fo, 'outs')):
                if isinstance(spec, list):
                    names = [x for x in spec if x is not None]
                    if len(set(names)) != len(names):
                        return False
                    if any(x not in S for x in names):
                        return False
                    if fixed and (len(spec) > n or None in spec):
                        return False
                elif spec not in ('default', 'none'):
                    if spec not in S:
                        return False
            # a stream may not be given both as inlet and outlet in a way that collides: allowed
            return True
        if op in ('s_disconnect_source', 's_disconnect_sink', 's_disconnect', 'get_connection'):
            return ev['stream'] in S
        if op == 'reconnect':
            c = self.saved.get(ev['slot'])
            if c is None:
                return False
            s = c.stream
            # item assignment preconditions for both halves
            if c.source is not None:
                seq = c.source._outs
                if c.source_index is None or c.source_index < 0:
                    return False
                if c.source_index >= len(seq._streams) + (0 if seq._fixed_size else 1):
                    return False
                j = self._index(seq, s)
                if j is not None and j != c.source_index:
                    return False
            if c.sink is not None:
                seq = c.sink._ins
                if c.sink_index is None or c.sink_index < 0:
                    return False
                if c.sink_index >= len(seq._streams) + (0 if seq._fixed_size else 1):
                    return False
                j = self._index(seq, s)
                if j is not None and j != c.sink_index:
                    return False
            return True
        if ev.get('unit') not in U:
            return False
        u = U[ev['unit']]
        if op == 'set_item':
            seq = self._ports(ev['unit'], ev['side'])
            n = len(seq._streams)
            i = ev['index']
            if i < 0 or i > n or (i == n and seq._fixed_size):
                return False
            if ev['stream'] is None:
                return i < n
            s = S.get(ev['stream'])
            if s is None:
                return False
            j = self._index(seq, s)
            return j is None or j == i
        if op == 'bad_slice':
            return (0 <= ev['junk_at'] <= len(ev['streams']) and None not in ev['streams']
                    and self.pre(dict(ev, op='set_slice')))
        if op == 'set_slice':
            seq = self._ports(ev['unit'], ev['side'])
            n = len(seq._streams)
            a, b = ev['start'], ev['stop']
            if b is None:
                b = n
            if not (0 <= a <= b <= n):
                return False
            names = [x for x in ev['streams'] if x is not None]
            if len(set(names)) != len(names) or any(x not in S for x in names):
                return False
            if seq._fixed_size and None in ev['streams']:
                pass
            new_len = n - (b - a) + len(ev['streams'])
            if seq._fixed_size and new_len > seq._size:
                return False
            # not already in the same list outside the replaced section
            for x in names:
                j = self._index(seq, S[x])
                if j is not None and not (a <= j < b):
                    return False
            return True
        if op in ('append', 'insert'):
            seq = self._ports(ev['unit'], ev['side'])
            if seq._fixed_size or ev['stream'] not in S:
                return False
            if op == 'insert' and not (0 <= ev['index'] <= len(seq._streams)):
                return False
            return not self._docked(S[ev['stream']], ev['side'])
        if op == 'pop':
            seq = self._ports(ev['unit'], ev['side'])
            n = len(seq._streams)
            return n > 0 and -n <= ev['index'] < n
        if op == 'remove':
            seq = self._ports(ev['unit'], ev['side'])
            return ev['stream'] in S and self._in_list(seq, S[ev['stream']])
        if op == 'replace':
            seq = self._ports(ev['unit'], ev['side'])
            if ev['stream'] not in S or not self._in_list(seq, S[ev['stream']]):
                return False
            if ev['other'] is None:
                return True
            if ev['other'] not in S:
                return False
            o = S[ev['other']]
            return o is S[ev['stream']] or not self._in_list(seq, o)
        if op in ('pipe_in', 'pipe_out'):
            seq = u._ins if op == 'pipe_in' else u._outs
            n = len(seq._streams)
            i = ev['index']
            if ev['stream'] not in S or i < 0 or i > n or (i == n and seq._fixed_size):
                return False
            j = self._index(seq, S[ev['stream']])
            return j is None or j == i
        if op == 'pipe_units':
            if ev['other'] not in U:
                return False
            v = U[ev['other']]
            src = u._outs._streams
            if v._ins._fixed_size and len(src) > v._ins._size:
                return False
            return True
        if op in ('pipe_streams_in', 'pipe_streams_out'):
            seq = u._ins if op == 'pipe_streams_in' else u._outs
            names = ev['streams']
            if not names or len(set(names)) != len(names) or any(x not in S for x in names):
                return False
            if ev['form'] == 'single' and len(names) != 1:
                return False
            if seq._fixed_size and len(names) > seq._size:
                return False
            return True
        if op == 'u_disconnect':
            if ev['mode'] == 'index':
                ni, no = len(u._ins._streams), len(u._outs._streams)
                return (all(0 <= i < ni for i in ev['inlets'])
                        and all(0 <= i < no for i in ev['outlets']))
            if ev['mode'] == 'join':
                ins = [i for i in u._ins._streams if i]
                outs = [i for i in u._outs._streams if i]
                if len(ins) != len(outs):
                    return False
                # replace precondition at each downstream unit
                for i, o in zip(ins, outs):
                    if o._sink is not None and self._in_list(o._sink._ins, i):
                        return False
                # after the unit lets go, inlets must be free on the sink side: they are
                return True
            return True
        if op == 'u_insert':
            # documented use: a unit with free ports is placed into an existing line
            if ev['stream'] not in S:
                return False
            s = S[ev['stream']]
            src, snk = s._source, s._sink
            if src is None or snk is None or src is u or snk is u:
                return False
            if not self._in_list(src._outs, s) or not self._in_list(snk._ins, s):
                return False
            if u._outs_size_is_fixed:
                if u._N_outs != 1 or len(u._outs._streams) != 1:
                    return False
                o = u._outs._streams[0]
                if not isinstance(o, nw.AbstractStream) or o._sink is not None or o is s:
                    return False
                if self._in_list(snk._ins, o):
                    return False
                added = False
            else:
                return False  # the variable-outlet form appends a stream that is still docked at its source
            if u._ins_size_is_fixed or added:
                if u._N_ins != 1 or len(u._ins._streams) != 1:
                    return False
                i = u._ins._streams[0]
                if not isinstance(i, nw.AbstractStream) or i._source is not None or i is s:
                    return False
                if self._in_list(src._outs, i):
                    return False
            return True
        if op == 'take_place_of':
            if ev['other'] not in U or ev['other'] == ev['unit']:
                return False
            v = U[ev['other']]
            if u._ins._fixed_size and len(v._ins._streams) > u._ins._size:
                return False
            if u._outs._fixed_size and len(v._outs._streams) > u._outs._size:
                return False
            return True
        if op == 'replace_with':
            if ev['other'] is None:
                # bypass form: inlet i is joined to outlet i
                for i, o in zip(tuple(u._ins._streams), tuple(u._outs._streams)):
                    src = getattr(i, '_source', None)
                    if src is not None:
                        if not self._in_list(src._outs, i):
                            return False
                        if o is not i and self._in_list(src._outs, o):
                            return False
                    else:
                        snk = getattr(o, '_sink', None)
                        if snk is not None:
                            if not self._in_list(snk._ins, o):
                                return False
                            if o is not i and self._in_list(snk._ins, i):
                                return False
                return True
            if ev['other'] not in U or ev['other'] == ev['unit']:
                return False
            v = U[ev['other']]
            if v._ins._fixed_size and len(u._ins._streams) > v._ins._size:
                return False
            if v._outs._fixed_size and len(u._outs._streams) > v._outs._size:
                return False
            return True
        if op == 'placeholder_op':
            seq = self._ports(ev['unit'], ev['side'])
            i = ev['index']
            return 0 <= i < len(seq._streams) and isinstance(seq._streams[i], nw.AbstractMissingStream)
        return False

    # ------------------------------------------------------------ execution
    def apply(self, ev):
        op = ev['op']
        if op == 'noop':
            return 'noop'
        if not self.pre(ev):
            return 'skip:pre'
        self.stats[f'op:{op}'] += 1
        self.stats['mechanism_ops'] += 1
        S, U = self.streams, self.units
        post = None
        try:
            with warnings.catch_warnings():
                warnings.simplefilter('ignore')
                post = self._do(ev, S, U)
        except Violation:
            raise
        except Exception as e:
            # every generated operation is inside its stated precondition: raising is
            # not a connection inconsistency by itself, so the state is judged as it is
            self.stats[f'exc:{op}:{type(e).__name__}'] += 1
            obs = f'exc:{type(e).__name__}'
            self._adopt_new_streams()
            self.check_invariant(ev)
            return obs
        self._adopt_new_streams()
        self.check_invariant(ev)
        if post is not None:
            post()
        return 'ok'

    def _spec_to_arg(self, spec):
        if spec == 'default':
            return ()
        if spec == 'none':
            return None
        if isinstance(spec, list):
            return [self._stream(x) for x in spec]
        return self.streams[spec]

    def _do(self, ev, S, U):
        op = ev['op']
        if op == 'new_unit':
            cls = self.unit_class(*UNIT_KINDS[ev['kind']])
            kw = {}
            ins = self._spec_to_arg(ev['ins'])
            outs = self._spec_to_arg(ev['outs'])
            u = cls('.' + (ev.get('id') or ev['name']), ins, outs)
            U[ev['name']] = u
            return None
        if op == 's_disconnect_source':
            S[ev['stream']].disconnect_source()
            s = S[ev['stream']]
            return lambda: self._expect(s._source is None, ev, 'source still set after disconnect_source')
        if op == 's_disconnect_sink':
            S[ev['stream']].disconnect_sink()
            s = S[ev['stream']]
            return lambda: self._expect(s._sink is None, ev, 'sink still set after disconnect_sink')
        if op == 's_disconnect':
            S[ev['stream']].disconnect()
            s = S[ev['stream']]
            return lambda: self._expect(s._sink is None and s._source is None, ev,
                                        'stream still docked after disconnect')
        if op == 'get_connection':
            self.saved[ev['slot']] = S[ev['stream']].get_connection()
            return None
        if op == 'reconnect':
            c = self.saved[ev['slot']]
            c.reconnect()

            def post():
                s = c.stream
                self._expect(s._source is c.source and s._sink is c.sink, ev,
                             'reconnect did not restore the recorded source/sink')
            return post
        u = U[ev['unit']]
        if op == 'set_item':
            seq = self._ports(ev['unit'], ev['side'])
            s = self._stream(ev['stream'])
            seq[ev['index']] = s
            if s is not None:
                i = ev['index']
                return lambda: self._expect(seq._streams[i] is s, ev, 'assigned stream is not at the assigned port')
            return None
        if op == 'set_slice':
            seq = self._ports(ev['unit'], ev['side'])
            seq[ev['start']:ev['stop']] = [self._stream(x) for x in ev['streams']]
            names = [x for x in ev['streams'] if x is not None]
            return lambda: self._expect(all(self._in_list(seq, S[x]) for x in names), ev,
                                        'slice-assigned stream missing from the port list')
        if op == 'bad_slice':
            seq = self._ports(ev['unit'], ev['side'])
            items = [self._stream(x) for x in ev['streams']]
            items.insert(ev['junk_at'], 'not-a-stream')
            before = (list(seq._streams), [(s._source, s._sink) for s in S.values()])
            try:
                seq[ev['start']:ev['stop']] = items
            except TypeError:
                self.stats['bad_slice_refused'] += 1
                after = (list(seq._streams), [(s._source, s._sink) for s in S.values()])
                same = (len(before[0]) == len(after[0]) and all(x is y for x, y in zip(before[0], after[0]))
                        and all(a[0] is b[0] and a[1] is b[1] for a, b in zip(before[1], after[1])))
                return lambda: self._expect(same, ev, 'a refused slice assignment changed the connections')
            return lambda: self._expect(False, ev, 'a slice holding a non-stream item was accepted')
        if op == 'append':
            seq = self._ports(ev['unit'], ev['side'])
            s = S[ev['stream']]
            seq.append(s)
            return lambda: self._expect(seq._streams[-1] is s, ev, 'appended stream is not last')
        if op == 'insert':
            seq = self._ports(ev['unit'], ev['side'])
            s = S[ev['stream']]
            seq.insert(ev['index'], s)
            return lambda: self._expect(self._in_list(seq, s), ev, 'inserted stream not in list')
        if op == 'pop':
            seq = self._ports(ev['unit'], ev['side'])
            s = seq.pop(ev['index'])
            return lambda: self._expect(not self._in_list(seq, s) or not s, ev, 'popped stream still listed')
        if op == 'remove':
            seq = self._ports(ev['unit'], ev['side'])
            s = S[ev['stream']]
            seq.remove(s)
            return lambda: self._expect(not self._in_list(seq, s), ev, 'removed stream still listed')
        if op == 'replace':
            seq = self._ports(ev['unit'], ev['side'])
            s = S[ev['stream']]
            o = self._stream(ev['other'])
            seq.replace(s, o)
            if o is not None:
                return lambda: self._expect(self._in_list(seq, o), ev, 'replacement stream not in list')
            return None
        if op == 'pipe_in':
            s = S[ev['stream']]
            if ev['pow']:
                r = (s ** ev['index']) ** u
            else:
                r = s - ev['index'] - u
            i = ev['index']
            return lambda: self._expect(u._ins._streams[i] is s and r is u, ev, 'pipe did not connect inlet')
        if op == 'pipe_out':
            s = S[ev['stream']]
            if ev['pow']:
                r = u ** ev['index'] ** s
            else:
                r = u - (ev['index'] ** s)
            i = ev['index']
            return lambda: self._expect(u._outs._streams[i] is s and r is u, ev, 'pipe did not connect outlet')
        if op == 'pipe_units':
            v = U[ev['other']]
            u - v
            return None
        if op == 'pipe_streams_in':
            ss = [S[x] for x in ev['streams']]
            if ev['form'] == 'single':
                ss[0] - u
            elif ev['form'] == 'tuple':
                tuple(ss) - u
            else:
                list(ss) - u
            return lambda: self._expect(all(self._in_list(u._ins, s) for s in ss), ev,
                                        'piped streams missing from inlets')
        if op == 'pipe_streams_out':
            ss = [S[x] for x in ev['streams']]
            if ev['form'] == 'single':
                u - ss[0]
            elif ev['form'] == 'tuple':
                u - tuple(ss)
            else:
                u - list(ss)
            return lambda: self._expect(all(self._in_list(u._outs, s) for s in ss), ev,
                                        'piped streams missing from outlets')
        if op == 'u_disconnect':
            if ev['mode'] == 'all':
                u.disconnect()
            elif ev['mode'] == 'join':
                u.disconnect(join_ends=True)
            else:
                u.disconnect(inlets=list(ev['inlets']), outlets=list(ev['outlets']))
            return None
        if op == 'u_insert':
            u.insert(S[ev['stream']])
            return None
        if op == 'take_place_of':
            u.take_place_of(U[ev['other']])
            return None
        if op == 'replace_with':
            if ev['other'] is None:
                u.replace_with()
            else:
                u.replace_with(U[ev['other']])
            return None
        if op == 'placeholder_op':
            seq = self._ports(ev['unit'], ev['side'])
            m = seq._streams[ev['index']]
            what = ev['what']
            if what == 'remove':
                seq.remove(m)
            elif what == 'reassign':
                seq[ev['index']] = m
            else:
                getattr(m, what)()
            return None
        raise AssertionError(op)

    def _expect(self, cond, ev, msg):
        if not cond:
            self.fail('postcondition', f"{ev['op']}: {msg}", {'event': ev, 'state': self.describe()})

    # ------------------------------------------------------------ oracle
    def describe(self):
        out = {}
        names = {id(v): k for k, v in self.streams.items()}
        unames = {id(v): k for k, v in self.units.items()}

        def nm(s):
            if isinstance(s, nw.AbstractMissingStream):
                return None
            return names.get(id(s), '?')
        for k in sorted(self.units):
            u = self.units[k]
            out[k] = {'ins': [nm(s) for s in u._ins._streams], 'outs': [nm(s) for s in u._outs._streams]}
        out['streams'] = {k: [unames.get(id(s._source), None if s._source is None else '?'),
                              unames.get(id(s._sink), None if s._sink is None else '?')]
                          for k, s in sorted(self.streams.items())}
        return out

    def check_invariant(self, ev):
        U, S = self.units, self.streams
        in_count = {}
        out_count = {}
        placeholders = []
        for uname in sorted(U):
            u = U[uname]
            for side, seq, n_fixed in (('ins', u._ins, u._N_ins), ('outs', u._outs, u._N_outs)):
                if u.ins is not u._ins or u.outs is not u._outs:
                    self.fail('ports', f'{uname}: public port list is not the stored one')
                if seq._fixed_size and len(seq._streams) != n_fixed:
                    self.fail('fixed-size', f'{uname}.{side} has {len(seq._streams)} ports, fixed size {n_fixed}',
                              {'event': ev, 'state': self.describe()})
                for i, s in enumerate(seq._streams):
                    if isinstance(s, nw.AbstractMissingStream):
                        if s:
                            self.fail('placeholder', f'placeholder at {uname}.{side}[{i}] is truthy',
                                      {'event': ev})
                        placeholders.append((s, uname, side, i))
                        continue
                    if not isinstance(s, nw.AbstractStream):
                        self.fail('port-type', f'{uname}.{side}[{i}] holds {type(s).__name__}',
                                  {'event': ev, 'state': self.describe()})
                    cnt = in_count if side == 'ins' else out_count
                    cnt[id(s)] = cnt.get(id(s), 0) + 1
                    owner = s._sink if side == 'ins' else s._source
                    if owner is not u:
                        self.fail('listed-but-not-docked',
                                  f'{self._name_of(s)} is listed in {uname}.{side}[{i}] but its '
                                  f'{"sink" if side == "ins" else "source"} is '
                                  f'{self._uname(owner)}', {'event': ev, 'state': self.describe()})
        # placeholders that sit in a port list may be shared between an outlet and an inlet list (unit - unit
        # pipes); what they say about their own source / sink must agree with the lists that hold them
        where = {}
        for p_, uname, side, i in placeholders:
            where.setdefault(id(p_), {'obj': p_, 'ins': [], 'outs': []})[side].append(uname)
        for rec in where.values():
            p_ = rec['obj']
            snk, src = getattr(p_, '_sink', None), getattr(p_, '_source', None)
            if snk is not None and self._uname(snk) in U and self._uname(snk) not in rec['ins']:
                self.fail('placeholder-docked-but-not-listed',
                          f'a placeholder listed at {rec["ins"] or "no inlet list"} / {rec["outs"] or "no outlet list"} '
                          f'reports sink {self._uname(snk)}, whose inlets do not hold it',
                          {'event': ev, 'state': self.describe()})
            if src is not None and self._uname(src) in U and self._uname(src) not in rec['outs']:
                self.fail('placeholder-docked-but-not-listed',
                          f'a placeholder listed at {rec["ins"] or "no inlet list"} / {rec["outs"] or "no outlet list"} '
                          f'reports source {self._uname(src)}, whose outlets do not hold it',
                          {'event': ev, 'state': self.describe()})
        for sname in sorted(S):
            s = S[sname]
            if in_count.get(id(s), 0) > 1 or out_count.get(id(s), 0) > 1:
                self.fail('two-ports', f'{sname} occupies two ports on the same side',
                          {'event': ev, 'state': self.describe()})
            if s._sink is not None and in_count.get(id(s), 0) == 0:
                self.fail('docked-but-not-listed',
                          f'{sname}.sink is {self._uname(s._sink)} but no inlet list holds it',
                          {'event': ev, 'state': self.describe()})
            if s._source is not None and out_count.get(id(s), 0) == 0:
                self.fail('docked-but-not-listed',
                          f'{sname}.source is {self._uname(s._source)} but no outlet list holds it',
                          {'event': ev, 'state': self.describe()})

    def _uname(self, u):
        if u is None:
            return None
        for k, v in self.units.items():
            if v is u:
                return k
        return f'<foreign {u!r}>'

    def abstract_state(self):
        d = self.describe()
        shape = []
        for k in sorted(self.units):
            shape.append((type(self.units[k]).__name__,
                          tuple(x is not None for x in d[k]['ins']),
                          tuple(x is not None for x in d[k]['outs'])))
        conn = sorted((a is not None, b is not None) for a, b in d['streams'].values())
        edges = sorted((a, b) for a, b in d['streams'].values() if a and b)
        return (shape, conn, edges)

    def shared_touch(self, ev):
        return ev['op']

    def finish(self):
        self.check_invariant({'op': 'finish'})


def simplify_event(ev):
    out = []
    if ev.get('op') == 'new_unit':
        for side in ('ins', 'outs'):
            if ev[side] not in ('default', 'none'):
                e = dict(ev)
                e[side] = 'none'
                out.append(e)
    if ev.get('op') == 'set_slice' and ev['streams']:
        e = dict(ev)
        e['streams'] = ev['streams'][:-1]
        out.append(e)
    return out


# ====================================================================== C19

class OrderWorld(BaseWorld):
    """Events: {'op':'graph', spec}  then  {'op':'network', perm, hash_seed}."""

    def __init__(self, prop, cfg):
        super().__init__(prop, cfg)
        warnings.filterwarnings('ignore')
        self.spec = None
        self.regions = set(cfg.get('regions', []))
        self.objs = None          # persistent mode: (unit objects by role, streams by name)

    # ---------------------------------------------------------------- gen
    def gen(self, rngs):
        if self.spec is None:
            return {'op': 'graph', 'spec': self._gen_graph(rngs.universe)}
        n = len(self.spec['units'])
        if not self.cfg.get('persistent') and getattr(self, 'built', 0) and rngs.sched.random() < 0.12:
            # the next flowsheet of the same process: another graph, acyclic after a cyclic one and vice versa
            # (what an earlier network left behind in class-level state must not reach this one)
            return {'op': 'graph', 'spec': self._gen_graph(rngs.args, back_edges=0 if self.cyclic else
                                                           max(1, self.cfg['back_edges']))}
        if self.cfg.get('persistent') and self.objs is not None and self.spec['edges'] and rngs.sched.random() < 0.12:
            # mark a connection as a disjunction (twice, as two pieces of user code would), then take the mark back:
            # the module-level registry must be as before
            e = rngs.args.choice(self.spec['edges'])
            return {'op': 'disjunction_roundtrip', 'edge': list(e), 'marks': rngs.args.choice([1, 2, 2, 3])}
        if self.cfg.get('persistent') and self.objs is not None and rngs.sched.random() < 0.45:
            r = rngs.args
            if r.random() < 0.7:
                shape = lambda i: (self.spec['units'][i]['n_ins'], self.spec['units'][i]['n_outs'])
                pairs = [(i, j) for i in range(n) for j in range(i + 1, n) if shape(i) == shape(j)]
                if pairs:
                    a, b = r.choice(pairs)
                    return {'op': 'swap', 'a': a, 'b': b}
            return {'op': 'bad_slice', 'unit': r.randrange(n), 'side': r.choice(['ins', 'outs']),
                    'junk_at': r.randint(0, 3)}
        perm = list(range(n))
        rngs.sched.shuffle(perm)
        ev = {'op': 'network', 'perm': perm, 'hash_seed': rngs.fault.getrandbits(32)}
        if n >= 3 and self.cfg.get('sections') and rngs.sched.random() < 0.35:
            # a SECTION of the plant: a connected subset of the units is handed to Network.from_units
            sub = self._gen_section(rngs.args)
            if sub:
                rngs.args.shuffle(sub)
                ev['perm'] = sub
                ev['section'] = True
        return ev

    def _gen_section(self, r):
        n = len(self.spec['units'])
        nbr = {u: set() for u in range(n)}
        for (su, sp, du, dp) in self.spec['edges']:
            nbr[su].add(du)
            nbr[du].add(su)
        for _ in range(20):
            size = r.randint(2, n - 1)
            start = r.randrange(n)
            G = {start}
            frontier = sorted(nbr[start] - G)
            while len(G) < size and frontier:
                v = r.choice(frontier)
                G.add(v)
                frontier = sorted(set().union(*(nbr[g] for g in G)) - G)
            if len(G) >= 2 and self._section_ok(sorted(G)):
                return sorted(G)
        return None

    def _section_ok(self, G):
        """the same two generator preconditions as for whole flowsheets, on the induced sub-flowsheet"""
        units = self.spec['units']
        loc = {g: i for i, g in enumerate(G)}
        sub_units = [units[g] for g in G]
        sub_edges = [[loc[e[0]], e[1], loc[e[2]], e[3]] for e in self.spec['edges'] if e[0] in loc and e[2] in loc]
        # only sections that are acyclic by themselves: with loops inside a section the unchanged tree orders units
        # against the material flow outside any loop of the section (seen in soak, e.g. 8 units, section
        # {1..7} of a plant whose other loops close through unit 0) - sections are beyond C19's stated quantifier,
        # so that is recorded here as an observation and not generated
        if self._scc(list(range(len(G))), sub_edges)[1]:
            return False
        return (self._has_feed(sub_units, sub_edges, len(G)) and self._all_reach_product(sub_units, sub_edges, len(G)))

    def _gen_graph(self, r, back_edges=None):
        n = self.cfg['n_units']
        n_back = self.cfg['back_edges'] if back_edges is None else back_edges
        for _attempt in range(200):
            units = [{'n_ins': r.randint(1, 3), 'n_outs': r.randint(1, 3)} for _ in range(n)]
            edges = []  # (src_unit, src_port, dst_unit, dst_port)
            free_out = []
            ok = True
            used_in = {i: 0 for i in range(n)}
            for i in range(n):
                if i > 0:
                    if not free_out:
                        ok = False
                        break
                    k = r.randint(1, min(units[i]['n_ins'], len(free_out)))
                    for _ in range(k):
                        j = r.randrange(len(free_out))
                        su, sp = free_out.pop(j)
                        edges.append([su, sp, i, used_in[i]])
                        used_in[i] += 1
                for p in range(units[i]['n_outs']):
                    free_out.append((i, p))
            if not ok:
                continue
            # back edges: a free outlet of a later-or-equal unit to a free inlet of an earlier unit
            back = []
            for _ in range(n_back):
                cand_out = [(u, p) for (u, p) in free_out]
                cand_in = [(u, p) for u in range(n) for p in range(used_in[u], units[u]['n_ins'])]
                r.shuffle(cand_out)
                r.shuffle(cand_in)
                done = False
                for (su, sp) in cand_out:
                    for (du, dp) in cand_in:
                        if du < su or (du == su and self.cfg.get("self_loops")):
                            trial = edges + back + [[su, sp, du, used_in[du]]]
                            if self._all_reach_product(units, trial, n) and self._has_feed(units, trial, n):
                                back.append([su, sp, du, used_in[du]])
                                used_in[du] += 1
                                free_out.remove((su, sp))
                                done = True
                                break
                    if done:
                        break
            all_edges = edges + back
            if not self._has_feed(units, all_edges, n):
                continue
            if not self._all_reach_product(units, all_edges, n):
                continue
            # feed flows
            feeds = {}
            for u in range(n):
                used = {e[3] for e in all_edges if e[2] == u}
                for p in range(units[u]['n_ins']):
                    if p not in used:
                        feeds[f'{u}.{p}'] = 0.0 if self.cfg['feed_ties'] else float(r.randint(0, 5))
            return {'units': units, 'edges': all_edges, 'feeds': feeds}
        # fallback: 2-unit line
        return {'units': [{'n_ins': 1, 'n_outs': 1}, {'n_ins': 1, 'n_outs': 1}],
                'edges': [[0, 0, 1, 0]], 'feeds': {'0.0': 1.0}}

    @staticmethod
    def _has_feed(units, edges, n):
        """Every unit is reachable from a feed (an inlet port without an edge).  A back edge
        may not use up the last feed of a loop: a closed loop that no feed enters is not
        a flowsheet Network.from_units (which walks from the feeds) is documented for."""
        fed = set()
        for u in range(n):
            used = {e[3] for e in edges if e[2] == u}
            if len(used) < units[u]['n_ins']:
                fed.add(u)
        if not fed:
            return False
        succ = {u: set() for u in range(n)}
        for e in edges:
            succ[e[0]].add(e[2])
        seen = set(fed)
        todo = list(fed)
        while todo:
            u = todo.pop()
            for v in succ[u]:
                if v not in seen:
                    seen.add(v)
                    todo.append(v)
        return len(seen) == n

    @staticmethod
    def _all_reach_product(units, edges, n):
        # a product is an outlet port without an edge
        succ = {u: set() for u in range(n)}
        has_product = set()
        for u in range(n):
            used = {e[1] for e in edges if e[0] == u}
            if len(used) < units[u]['n_outs']:
                has_product.add(u)
        for e in edges:
            succ[e[0]].add(e[2])
        ok = set(has_product)
        changed = True
        while changed:
            changed = False
            for u in range(n):
                if u not in ok and succ[u] & ok:
                    ok.add(u)
                    changed = True
        return len(ok) == n

    # ---------------------------------------------------------------- apply
    def apply(self, ev):
        if ev['op'] == 'graph':
            if self.spec is not None and (self.cfg.get('persistent') or not getattr(self, 'built', 0)):
                return 'skip:pre'
            if self.spec is not None:
                self.stats['fault:next_flowsheet_in_same_process'] += 1
            self.spec = ev['spec']
            self._analyse()
            self.stats['op:graph'] += 1
            self.stats['graphs_cyclic' if self.cyclic else 'graphs_acyclic'] += 1
            return {'cyclic': self.cyclic, 'sccs': len(self.scc_sets)}
        if ev['op'] == 'disjunction_roundtrip':
            if self.spec is None or self.objs is None or not self.cfg.get('persistent'):
                return 'skip:pre'
            if list(ev['edge']) not in [list(e) for e in self.spec['edges']]:
                return 'skip:pre'
            units, streams = self.objs
            su, sp, du, dp = ev['edge']
            s_ = units[su].outs[sp]
            if not s_ or s_.sink is not units[du]:
                return 'skip:pre'
            n0 = len(nw.disjunctions)
            for _ in range(int(ev['marks'])):
                nw.mark_disjunction(s_)
            nw.unmark_disjunction(s_)
            self.stats['fault:disjunction_marked_and_unmarked'] += 1
            if len(nw.disjunctions) != n0:
                self.fail('disjunction-left-behind', f'marking a stream as a disjunction {ev["marks"]} time(s) and taking '
                          f'the mark back left {len(nw.disjunctions) - n0} entry(ies) in the registry', {'event': ev})
            return 'ok'
        if ev['op'] in ('swap', 'bad_slice'):
            if self.spec is None or self.objs is None or not self.cfg.get('persistent'):
                return 'skip:pre'
            return self._rewire(ev)
        if ev['op'] != 'network' or self.spec is None:
            return 'skip:pre'
        n = len(self.spec['units'])
        given = list(ev['perm'])
        if ev.get('section'):
            if (len(set(given)) != len(given) or len(given) < 2 or any(not (0 <= g < n) for g in given)
                    or self.cfg.get('persistent') or not self._section_ok(sorted(given))):
                return 'skip:pre'
            self.stats['probe:section_of_a_larger_flowsheet'] += 1
        elif sorted(given) != list(range(n)):
            return 'skip:pre'
        G = set(given)
        edges_G = [e for e in self.spec['edges'] if e[0] in G and e[2] in G]
        if ev.get('section'):
            scc_of, cyclic = self._scc(sorted(G), edges_G)
        else:
            scc_of, cyclic = self.scc_of, self.cyclic
        self.stats['op:network'] += 1
        self.stats['mechanism_ops'] += 1
        self.built = getattr(self, 'built', 0) + 1
        if self.cfg.get('persistent'):
            if self.objs is None:
                self.objs = self._build(ev['hash_seed'])
            else:
                self.stats['probe:network_rebuilt_from_aged_objects'] += 1
            units, streams = self.objs
        else:
            units, streams = self._build(ev['hash_seed'])
        ordered = [units[i] for i in given]
        with warnings.catch_warnings(record=True) as wlist:
            warnings.simplefilter('always')
            try:
                net = nw.Network.from_units(ordered)
            except RecursionError:
                raise
            except Exception as e:
                import traceback as _tb
                frames = _tb.extract_tb(e.__traceback__)
                site = frames[-1].name if frames else '?'
                sig = f'{type(e).__name__}@{site}'
                if (sig == 'ValueError@join_recycle_network'
                        and 'C19-join-recycle-valueerror' in self.regions):
                    # listed known finding, identified by its call site
                    self.stats['region:C19-join-recycle-valueerror'] += 1
                    return {'known_finding': sig}
                self.fail('from_units-raises:' + sig,
                          f'Network.from_units raised {type(e).__name__} in {site}: {e}',
                          {'event': ev, 'spec': self.spec})
        undetermined = any('could not be determined' in str(w.message) for w in wlist)
        if undetermined:
            self.stats['probe:path_could_not_be_determined'] += 1
        path = self._flatten(net)
        recycles = net.get_all_recycles()
        idx = {id(u): i for i, u in enumerate(units)}
        order = [idx.get(id(u), -1) for u in path]
        detail = {'event': ev, 'spec': self.spec, 'path': order,
                  'recycles': sorted(self._sname(s, streams) for s in recycles)}
        if -1 in order:
            self.fail('foreign-unit', 'path contains a unit that was not given', detail)
        if set(order) - G:
            self.fail('foreign-unit', f'path contains units {sorted(set(order) - G)} that were not given', detail)
        if set(order) != G:
            self.fail('incomplete', f'path lacks units {sorted(G - set(order))}', detail)
        pos = {}
        for p, u in enumerate(order):
            pos.setdefault(u, p)
        if not cyclic:
            if len(order) != len(G):
                self.fail('duplicate', 'a unit appears more than once in an acyclic flowsheet', detail)
            for (su, sp, du, dp) in edges_G:
                if pos[su] >= pos[du]:
                    self.fail('order', f'unit {du} is placed before its feeder {su}', detail)
            if recycles:
                self.fail('spurious-recycle', 'recycle reported for an acyclic flowsheet', detail)
        else:
            self.stats['probe:cyclic_network_built'] += 1
            if not recycles:
                self.fail('no-recycle', 'no recycle stream reported for a cyclic flowsheet', detail)
            for (su, sp, du, dp) in edges_G:
                if pos[su] >= pos[du] and scc_of[su] != scc_of[du]:
                    self.fail('backward-outside-loop',
                              f'stream {su}->{du} runs against the path order but the two units '
                              f'share no recycle loop', detail)
        self.last_path = tuple(order)
        return {'path': order, 'n_recycles': len(recycles)}

    def _rewire(self, ev):
        units, streams = self.objs
        n = len(units)
        if ev['op'] == 'swap':
            a, b = ev['a'], ev['b']
            sh = self.spec['units']
            if not (0 <= a < n and 0 <= b < n and a != b
                    and (sh[a]['n_ins'], sh[a]['n_outs']) == (sh[b]['n_ins'], sh[b]['n_outs'])):
                return 'skip:pre'
            A, B = units[a], units[b]
            ia, oa, ib, ob = list(A.ins), list(A.outs), list(B.ins), list(B.outs)
            with warnings.catch_warnings():
                warnings.simplefilter('ignore')
                A.ins[:] = ib
                B.ins[:] = ia
                A.outs[:] = ob
                B.outs[:] = oa
            # the object that played role a now has role b's connections, and vice versa: same flowsheet,
            # the two unit OBJECTS exchanged their places
            units[a], units[b] = B, A
            for role in (a, b):
                u = units[role]
                want_in = ib if u is A else ia
                want_out = ob if u is A else oa
                if [x for x in u.ins] != want_in or [x for x in u.outs] != want_out:
                    return 'skip:rewire-not-applied'     # C18's subject, not judged here
                if any(x.sink is not u for x in want_in if x) or any(x.source is not u for x in want_out if x):
                    return 'skip:rewire-not-applied'
            self.stats['fault:rewire_same_objects'] += 1
            return 'ok'
        # bad_slice (F7): a slice assignment that must be refused; the caller catches the error and goes on
        u = units[ev['unit'] % n]
        seq = u.ins if ev['side'] == 'ins' else u.outs
        items = list(seq)
        items[min(ev['junk_at'], len(items) - 1)] = 'not-a-stream'
        try:
            seq[:] = items
        except TypeError:
            self.stats['fault:refused_assignment'] += 1
            return 'exc-rejected'
        except Exception as e:
            self.stats[f'exc:bad_slice:{type(e).__name__}'] += 1
            return f'exc:{type(e).__name__}'
        self.fail('non-stream-accepted', 'a port list accepted an item that is not a stream', {'event': ev})

    def _sname(self, s, streams):
        for k, v in streams.items():
            if v is s:
                return k
        return repr(s)

    def _flatten(self, net):
        out = []
        for i in net.path:
            if isinstance(i, nw.Network):
                out.extend(self._flatten(i))
            else:
                out.append(i)
        return out

    def _build(self, hash_seed):
        seams.reset_network_globals()
        seams.reset_hash(hash_seed)
        cl = seams.stub_classes()
        HStream = cl['HStream']
        spec = self.spec
        n = len(spec['units'])
        streams = {}
        ins = {u: [None] * spec['units'][u]['n_ins'] for u in range(n)}
        outs = {u: [None] * spec['units'][u]['n_outs'] for u in range(n)}
        # stream creation order is fixed (sorted) so that hash assignment is a function of hash_seed
        for e in sorted(spec['edges']):
            su, sp, du, dp = e
            s = HStream(f'.e{su}_{sp}_{du}_{dp}')
            streams[f'e{su}.{sp}-{du}.{dp}'] = s
            outs[su][sp] = s
            ins[du][dp] = s
        for u in range(n):
            for p in range(len(ins[u])):
                if ins[u][p] is None:
                    s = HStream(f'.f{u}_{p}')
                    s._fm = float(spec['feeds'].get(f'{u}.{p}', 0.0))
                    streams[f'f{u}.{p}'] = s
                    ins[u][p] = s
            for p in range(len(outs[u])):
                if outs[u][p] is None:
                    s = HStream(f'.p{u}_{p}')
                    streams[f'p{u}.{p}'] = s
                    outs[u][p] = s
        units = []
        for u in range(n):
            cls = cl['unit_class'](len(ins[u]), len(outs[u]), True, True)
            units.append(cls(f'.u{u}', ins[u], outs[u]))
        return units, streams

    def _analyse(self):
        spec = self.spec
        n = len(spec['units'])
        self.scc_of, self.cyclic = self._scc(list(range(n)), spec['edges'])
        self.scc_sets = {}
        for v, k in self.scc_of.items():
            self.scc_sets.setdefault(k, []).append(v)
        self.scc_sets = list(self.scc_sets.values())

    @staticmethod
    def _scc(nodes, edges):
        succ = {u: [] for u in nodes}
        for (su, sp, du, dp) in edges:
            succ[su].append(du)
        # Tarjan
        index = {}
        low = {}
        stack = []
        on = set()
        sccs = []
        counter = [0]

        def strong(v):
            index[v] = low[v] = counter[0]
            counter[0] += 1
            stack.append(v)
            on.add(v)
            for w in succ[v]:
                if w not in index:
                    strong(w)
                    low[v] = min(low[v], low[w])
                elif w in on:
                    low[v] = min(low[v], index[w])
            if low[v] == index[v]:
                comp = []
                while True:
                    w = stack.pop()
                    on.discard(w)
                    comp.append(w)
                    if w == v:
                        break
                sccs.append(comp)
        for v in nodes:
            if v not in index:
                strong(v)
        scc_of = {}
        for k, comp in enumerate(sccs):
            for v in comp:
                scc_of[v] = k
        cyclic = any(len(c) > 1 for c in sccs) or any(su == du for (su, sp, du, dp) in edges)
        return scc_of, cyclic

    def abstract_state(self):
        if self.spec is None:
            return None
        return ('g', len(self.spec['units']), sorted((e[0], e[2]) for e in self.spec['edges']),
                getattr(self, 'last_path', None))

    def shared_touch(self, ev):
        if ev['op'] == 'network':
            return (ev['perm'], ev['hash_seed'] & 0xff)
        if ev['op'] in ('swap', 'bad_slice', 'disjunction_roundtrip'):
            return (ev['op'], ev.get('a'), ev.get('b'), ev.get('unit'), ev.get('marks'))
        return None
