#!/venv/bin/python
"""Launcher: /venv/bin/python /verif/run_check.py <PROPERTY> --tier quick|thorough

exit 0 property held on everything explored (KNOWN-FINDING lines possible)
exit 1 VIOLATION property=<id> replay=<path>
exit 2 harness error / could not run (never a verdict)
"""
import os
import sys

sys.path.insert(0, os.path.dirname(os.path.abspath(__file__)))
from sim import env  # noqa: E402


def main():
    env.ensure_env()
    import argparse
    ap = argparse.ArgumentParser()
    ap.add_argument('prop')
    ap.add_argument('--tier', default=os.environ.get('VERIF_TIER', 'quick'))
    a = ap.parse_args()
    from checks.props import PROPS
    from sim.runner import run_check
    if a.prop not in PROPS:
        print(f'unknown or unclaimed property {a.prop}', file=sys.stderr)
        return 2
    try:
        return run_check(a.prop, PROPS[a.prop], a.tier)
    except BaseException:
        import traceback
        traceback.print_exc()
        return 2


if __name__ == '__main__':
    code = main()
    sys.stdout.flush()
    sys.stderr.flush()
    os._exit(code)
