#!/venv/bin/python
"""Determinism self-test (DESIGN section 4).

Every sampled run is executed (a) in a 4-worker pool, (b) in a 16-worker pool with the
chunks in reverse order (so each run is preceded by different runs in its process),
(c) for a sub-sample, alone in a fresh interpreter under PYTHONHASHSEED=12345.
All event digests must agree.  Any divergence is a harness bug: exit 2.
"""
import os, sys, subprocess, time
ROOT = os.path.dirname(os.path.dirname(os.path.abspath(__file__)))
sys.path.insert(0, ROOT)
from sim import env
env.ensure_env()
import multiprocessing as mp
from concurrent.futures import ProcessPoolExecutor


def pool_digests(prop, spec, seed, runs, workers, reverse, chunk):
    from sim.runner import work_chunk, _worker_init, open_regions
    tcfg = dict(spec['quick']); tcfg['tier'] = 'quick'; tcfg['regions'] = open_regions(prop)
    chunks = [runs[i:i + chunk] for i in range(0, len(runs), chunk)]
    if reverse:
        chunks = [list(reversed(c)) for c in reversed(chunks)]
    out = {}
    with ProcessPoolExecutor(max_workers=workers, mp_context=mp.get_context('fork'),
                             initializer=_worker_init, initargs=(spec['engine'],)) as pool:
        futs = [pool.submit(work_chunk, spec['engine'], prop, seed, tcfg, c) for c in chunks]
        for f in futs:
            a = f.result()
            if a['harness_error']:
                raise RuntimeError(a['harness_error'])
            out.update(a['digests'])
    return out


def main():
    short = '--short' in sys.argv
    only = [a for a in sys.argv[1:] if not a.startswith('--')]
    from checks.props import PROPS
    n = 32 if short else 240
    nfresh = 2 if short else 12
    bad = 0
    t0 = time.time()
    for prop in sorted(PROPS):
        if only and prop not in only:
            continue
        spec = PROPS[prop]
        seed = 777
        runs = list(range(n))
        a = pool_digests(prop, spec, seed, runs, 4, False, 8)
        b = pool_digests(prop, spec, seed, runs, 16, True, 3)
        # a chunk stops at its first violation: compare the runs both pools actually executed
        diff = [r for r in runs if r in a and r in b and a[r] != b[r]]
        fresh_runs = runs[:: max(1, n // nfresh)][:nfresh]
        envv = dict(os.environ); envv['VERIF_HASHSEED'] = '12345'; envv.pop('VERIF_ENV_PINNED', None)
        envv['PYTHONHASHSEED'] = '12345'
        p = subprocess.run([sys.executable, '-m', 'sim.onerun', prop, str(seed),
                            ','.join(map(str, fresh_runs))], cwd=ROOT, env=envv,
                           capture_output=True, text=True, timeout=1200)
        c = {}
        for line in p.stdout.splitlines():
            if line.startswith('DIGEST'):
                _, _, _, r, d, *_ = line.split()
                c[int(r)] = d
        diff_fresh = [r for r in fresh_runs if r in a and c.get(r) != a[r]]
        ok = not diff and not diff_fresh
        print(f'determinism {prop}: {n} runs x2 pools, {len(fresh_runs)} fresh-interpreter/other-hashseed: '
              f'{"OK" if ok else "DIVERGED"} pool_diff={diff[:5]} fresh_diff={diff_fresh[:5]}', flush=True)
        if not ok:
            bad += 1
            if p.returncode != 0:
                print(p.stderr[-2000:])
    print(f'determinism self-test finished in {time.time()-t0:.1f}s, diverging properties: {bad}')
    return 2 if bad else 0


if __name__ == '__main__':
    sys.exit(main())
