"""Fault seams S2 (property-model evaluation) and S3 (numerical solvers).

Both are pass-through wrappers installed once per process.  A fault fires only when a
*plan* is armed by the engine for the duration of one operation:

    with faults.armed({'kind': 'model_error', 'site': 'H', 'nth': 2, 'exc': 'DomainError'}) as plan:
        ... run one public-API call ...
    plan['fired']  -> whether the wrapped call was actually reached and raised

Reference computations in the harness run inside `faults.disarmed()`.
"""
import contextlib

_state = {'plan': None}


class InjectedFault(Exception):
    """Only used as a marker mixin name in messages; the raised class is a real one."""


def _raise(plan, where):
    from thermosteam.exceptions import InfeasibleRegion
    kind = plan.get('exc', 'RuntimeError')
    msg = f'injected fault at {where}'
    if kind == 'InfeasibleRegion':
        raise InfeasibleRegion(msg)
    if kind == 'ValueError':
        raise ValueError(msg)
    if kind == 'FloatingPointError':
        raise FloatingPointError(msg)
    raise RuntimeError(msg)


class ModelSeam:
    """Pass-through proxy around a mixture property model (S2)."""
    __slots__ = ('inner', 'site')

    def __init__(self, inner, site):
        self.inner = inner
        self.site = site

    def __call__(self, *args, **kwargs):
        plan = _state['plan']
        if plan is not None and plan['kind'] == 'model_error' and plan['site'] == self.site:
            plan['count'] += 1
            if plan['count'] >= plan['nth'] and (plan.get('every') or not plan['fired']):
                plan['fired'] = True
                _raise(plan, 'model ' + self.site)
        return self.inner(*args, **kwargs)

    def __getattr__(self, name):
        if name in ('inner', 'site') or name.startswith('__'):
            raise AttributeError(name)
        return getattr(self.inner, name)

    def __reduce__(self):
        return (ModelSeam, (self.inner, self.site))


MODEL_SITES = {'H': '_H', 'S': '_S', 'Cn': 'Cn', 'V': 'V', 'mu': 'mu', 'kappa': 'kappa',
               'Hvap': 'Hvap', 'sigma': 'sigma', 'epsilon': 'epsilon'}


def wrap_mixture(mixture):
    """Install S2 seams on an IdealMixture (slots are assignable). Idempotent."""
    for site, attr in MODEL_SITES.items():
        cur = getattr(mixture, attr)
        if not isinstance(cur, ModelSeam):
            setattr(mixture, attr, ModelSeam(cur, site))
    return mixture


SOLVERS = ('aitken', 'aitken_secant', 'IQ_interpolation', 'wegstein', 'fixed_point', 'secant',
           'bisection', 'false_position')
_installed = {}


def install_solver_seams():
    """Rebind flexsolve.<name> (looked up as flx.<name> at call time by thermosteam) (S3)."""
    import flexsolve as flx
    for name in SOLVERS:
        if name in _installed or not hasattr(flx, name):
            continue
        inner = getattr(flx, name)

        def make(inner, name):
            def seam(*args, **kwargs):
                plan = _state['plan']
                if plan is not None and plan['kind'] == 'solver_fail' and plan['site'] == name:
                    plan['count'] += 1
                    if plan['count'] >= plan['nth'] and (plan.get('every') or not plan['fired']):
                        plan['fired'] = True
                        _raise(plan, 'solver ' + name)
                return inner(*args, **kwargs)
            seam.__name__ = name
            seam.__wrapped__ = inner
            return seam
        _installed[name] = inner
        setattr(flx, name, make(inner, name))


@contextlib.contextmanager
def armed(fault):
    """Arm a fault plan for one operation. fault may be None."""
    if not fault:
        yield None
        return
    plan = dict(fault)
    plan['count'] = 0
    plan['fired'] = False
    prev = _state['plan']
    _state['plan'] = plan
    try:
        yield plan
    finally:
        _state['plan'] = prev


@contextlib.contextmanager
def disarmed():
    prev = _state['plan']
    _state['plan'] = None
    try:
        yield
    finally:
        _state['plan'] = prev


def is_injected(exc):
    return 'injected fault at' in str(exc)
