"""Fault seams S2 (property-model evaluation) and S3 (numerical solvers).

Both are pass-through wrappers installed once per process.  A fault fires only when a
*plan* is armed by the engine for the duration of one operation:

    with faults.armed({'kind': 'model_error', 'site': 'H', 'nth': 2, 'exc': 'DomainError'}) as plan:
        ... run one public-API call ...
    plan['fired']  -> whether the wrapped call was actually reached and raised

Reference computations in the harness run inside `faults.disarmed()`.
"""
import contextlib

_state = {'plan': None, 'observe': None}


class InjectedFault(Exception):
    """Only used as a marker mixin name in messages; the raised class is a real one."""


def _raise(plan, where):
    from thermosteam.exceptions import InfeasibleRegion
    kind = plan.get('exc', 'RuntimeError')
    msg = f'injected fault at {where}'
    if kind == 'InfeasibleRegion':
        raise InfeasibleRegion(msg)
    if kind == 'ValueError':
        raise ValueError(msg)
    if kind == 'FloatingPointError':
        raise FloatingPointError(msg)
    raise RuntimeError(msg)


class ModelSeam:
    """Pass-through proxy around a mixture property model (S2)."""
    __slots__ = ('inner', 'site')

    def __init__(self, inner, site):
        self.inner = inner
        self.site = site

    def __call__(self, *args, **kwargs):
        plan = _state['plan']
        if plan is not None and plan['kind'] == 'model_error' and plan['site'] == self.site:
            plan['count'] += 1
            if plan['count'] >= plan['nth'] and (plan.get('every') or not plan['fired']):
                plan['fired'] = True
                _raise(plan, 'model ' + self.site)
        return self.inner(*args, **kwargs)

    def __getattr__(self, name):
        if name in ('inner', 'site') or name.startswith('__'):
            raise AttributeError(name)
        return getattr(self.inner, name)

    def __reduce__(self):
        return (ModelSeam, (self.inner, self.site))


MODEL_SITES = {'H': '_H', 'S': '_S', 'Cn': 'Cn', 'V': 'V', 'mu': 'mu', 'kappa': 'kappa',
               'Hvap': 'Hvap', 'sigma': 'sigma', 'epsilon': 'epsilon'}


def wrap_mixture(mixture):
    """Install S2 seams on an IdealMixture (slots are assignable). Idempotent."""
    for site, attr in MODEL_SITES.items():
        cur = getattr(mixture, attr)
        if not isinstance(cur, ModelSeam):
            setattr(mixture, attr, ModelSeam(cur, site))
    return mixture


# Passive observation of S3 (no behaviour change): did a solver leave through its iteration cap?
# thermosteam calls its solvers with checkiter=False, so a capped solver returns silently.
OBSERVED = ('aitken', 'wegstein', 'IQ_interpolation')


def _observed_call(obs, name, inner, args, kwargs):
    f = args[0]
    last = {'n': 0, 'x': None, 'y': None}

    def g(x, *a):
        y = f(x, *a)
        last['n'] += 1
        last['x'] = x
        last['y'] = y
        return y
    ret = inner(g, *args[1:], **kwargs)
    obs['calls'] += 1
    capped = False
    try:
        if name in ('aitken', 'wegstein'):
            # a converged exit returns the last value f produced; the cap exit returns a fresh extrapolation
            capped = last['n'] > 0 and ret is not last['y']
        else:
            # IQ_interpolation(f, x0, x1, y0, y1, x, xtol, ytol, args, maxiter, ...)
            names = ('x0', 'x1', 'y0', 'y1', 'x', 'xtol', 'ytol', 'args', 'maxiter')
            kw = dict(zip(names, args[1:]))
            kw.update(kwargs)
            maxiter = kw.get('maxiter', 50)
            ytol = kw.get('ytol', 5e-8)
            y = last['y']
            capped = last['n'] >= maxiter and not (y is not None and abs(float(y)) < ytol)
            # the bracket collapsed (xtol met) on a point where the residual is nowhere near its tolerance:
            # the function jumps there; the solver reports that point as if it were the root
            if not capped and y is not None and ytol > 0 and abs(float(y)) > 1e2 * ytol and last['n'] > 2:
                capped = True
                obs['jump_exits'] = obs.get('jump_exits', 0) + 1
    except Exception:
        capped = False
    if capped:
        obs['cap_hits'].append([name, last['n']])
    obs['outer_capped'] = capped         # the call that finishes last is the outermost one
    obs['last'][name] = capped           # how the most recent call of each solver ended
    return ret


@contextlib.contextmanager
def observing():
    prev = _state.get('observe')
    rec = {'calls': 0, 'cap_hits': [], 'outer_capped': False, 'last': {}}
    _state['observe'] = rec
    try:
        yield rec
    finally:
        _state['observe'] = prev


SOLVERS = ('aitken', 'aitken_secant', 'IQ_interpolation', 'wegstein', 'fixed_point', 'secant',
           'bisection', 'false_position')
_installed = {}


def install_solver_seams():
    """Rebind flexsolve.<name> (looked up as flx.<name> at call time by thermosteam) (S3)."""
    import flexsolve as flx
    for name in SOLVERS:
        if name in _installed or not hasattr(flx, name):
            continue
        inner = getattr(flx, name)

        def make(inner, name):
            def seam(*args, **kwargs):
                plan = _state['plan']
                if plan is not None and plan['kind'] == 'solver_fail' and plan['site'] == name:
                    plan['count'] += 1
                    if plan['count'] >= plan['nth'] and (plan.get('every') or not plan['fired']):
                        plan['fired'] = True
                        _raise(plan, 'solver ' + name)
                obs = _state.get('observe')
                if obs is None or not args or name not in OBSERVED:
                    return inner(*args, **kwargs)
                return _observed_call(obs, name, inner, args, kwargs)
            seam.__name__ = name
            seam.__wrapped__ = inner
            return seam
        _installed[name] = inner
        setattr(flx, name, make(inner, name))


@contextlib.contextmanager
def armed(fault):
    """Arm a fault plan for one operation. fault may be None."""
    if not fault:
        yield None
        return
    plan = dict(fault)
    plan['count'] = 0
    plan['fired'] = False
    prev = _state['plan']
    _state['plan'] = plan
    try:
        yield plan
    finally:
        _state['plan'] = prev


@contextlib.contextmanager
def disarmed():
    prev = _state['plan']
    _state['plan'] = None
    try:
        yield
    finally:
        _state['plan'] = prev


def is_injected(exc):
    return 'injected fault at' in str(exc)
