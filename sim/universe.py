"""Property packages and name tables of the simulated universe (built once per process).

The harness keeps its OWN name -> position tables, derived from what it passed to
Chemicals / set_alias / define_group, never from thermosteam's index dictionaries.
"""
import numpy as np

from . import env, faults

_cache = {}

# name, kwargs
CHEMICAL_SPECS = {
    'Water': {}, 'Ethanol': {}, 'Methanol': {}, 'Glycerol': {'phase': 'l'},
    'N2': {'phase': 'g'}, 'CO2': {'phase': 'g'}, 'Glucose': {'phase': 's'}, 'Octane': {},
    'Methane': {'phase': 'g'},
}

PACKAGES = {
    # package id: (ordered chemical IDs, user aliases {alias: ID}, groups {name: (IDs, composition, wt)})
    'A': (['Water', 'Ethanol', 'Methanol', 'Glycerol', 'N2', 'CO2', 'Glucose', 'Octane'],
          {'Agua': 'Water', 'EtOH': 'Ethanol'},
          {'Alcohols': (['Methanol', 'Ethanol'], [0.25, 0.75], False),
           'Gases': (['N2', 'CO2'], [0.5, 0.5], False)}),
    # same chemicals in the same order as A, but other aliases and other group definitions: two packages
    # that differ only in their name tables must never share a lookup cache
    'A2': (['Water', 'Ethanol', 'Methanol', 'Glycerol', 'N2', 'CO2', 'Glucose', 'Octane'],
           # 'G' is also (the upper case of) a phase label: a chemical's name wins over the phase reading
           {'Humectant': 'Glycerol', 'Fuel': 'Octane', 'G': 'Glycerol'},
           {'Alcohols': (['Ethanol', 'Glycerol', 'Methanol'], [0.5, 0.25, 0.25], False),
            'Gases': (['CO2', 'N2'], [0.9, 0.1], True),
            # a member with a ZERO share: a scalar written to the group sets that member to zero
            'Solvent': (['Methanol', 'Ethanol', 'Octane'], [0.4, 0.0, 0.6], False)}),
    'B': (['Octane', 'Methanol', 'Ethanol', 'Water', 'Glucose', 'CO2'],
          {'Aqua': 'Water', 'MeOH': 'Methanol'},
          {'Alcohols': (['Methanol', 'Ethanol'], [0.4, 0.6], False),
           'Sugary': (['Glucose', 'Water'], [0.25, 0.75], True)}),
    'C': (['Ethanol', 'Water'], {}, {}),
    # gases under an equation-of-state mixture (Peng-Robinson): the mixture object carries per-call argument
    # state (_free_energy_args) that an IdealMixture does not have.  Gas-phase single streams only (C02).
    'E': (['N2', 'CO2', 'Methane'], {}, {}),
}
EOS_PACKAGES = {'E'}
# variants: a second Thermo over the SAME compiled chemicals object as the base package, with another mixture
# rule (ideal + excess energies) - what Stream._reset_thermo is given when a stream moves between units whose
# property packages differ only in their models (C14: "property-package change")
VARIANT_OF = {'Ax': 'A', 'Cx': 'C'}
for _v, _b in VARIANT_OF.items():
    PACKAGES[_v] = PACKAGES[_b]
# receiver package -> packages whose chemicals it contains
SUBPACKAGES = {'A': ['A', 'A2', 'B', 'C'], 'A2': ['A2', 'A', 'B', 'C'], 'B': ['B', 'C'], 'C': ['C'], 'E': ['E'],
               'Ax': ['Ax'], 'Cx': ['Cx']}


class Package:
    """A thermosteam Thermo plus the harness' independent tables."""

    def __init__(self, pid):
        tmo = env.import_thermosteam()
        if pid in VARIANT_OF:
            base = package(VARIANT_OF[pid])
            self.__dict__.update(base.__dict__)
            self.pid = pid
            self.thermo = tmo.Thermo(base.compiled, mixture=tmo.IdealMixture.from_chemicals(
                base.compiled, include_excess_energies=True))
            assert self.thermo.chemicals is base.compiled
            faults.wrap_mixture(self.thermo.mixture)
            return
        ids, aliases, groups = PACKAGES[pid]
        chems = [chemical(i) for i in ids]
        self.pid = pid
        self.ids = list(ids)
        self.n = len(ids)
        self.chemicals = tmo.Chemicals(chems)
        if pid in EOS_PACKAGES:
            self.thermo = tmo.Thermo(self.chemicals, mixture=tmo.PRMixture.from_chemicals(self.chemicals))
        else:
            self.thermo = tmo.Thermo(self.chemicals)
        self.compiled = self.thermo.chemicals
        for alias, cid in aliases.items():
            self.compiled.set_alias(cid, alias)
        for g, (gids, comp, wt) in groups.items():
            self.compiled.define_group(g, gids, composition=comp, wt=wt)
        if pid not in EOS_PACKAGES:
            faults.wrap_mixture(self.thermo.mixture)      # S2 seams need assignable model slots (IdealMixture)
        self.pos = {cid: k for k, cid in enumerate(ids)}
        self.CAS = [chemical(i).CAS for i in ids]
        self.MW = np.array([chemical(i).MW for i in ids], dtype=float)
        # every name of each chemical the harness knows about
        self.names = {}
        for k, cid in enumerate(ids):
            self.names[cid] = k
            self.names[self.CAS[k]] = k
        for alias, cid in aliases.items():
            self.names[alias] = self.pos[cid]
        self.groups = {}
        for g, (gids, comp, wt) in groups.items():
            idx = [self.pos[i] for i in gids]
            comp = np.array(comp, dtype=float)
            if wt:
                molcomp = comp / self.MW[idx]
                molcomp = molcomp / molcomp.sum()
            else:
                molcomp = comp / comp.sum()
            self.groups[g] = {'index': idx, 'mol_composition': molcomp,
                              'wt_composition': (molcomp * self.MW[idx]) / (molcomp * self.MW[idx]).sum()}
        self.locked = {k: CHEMICAL_SPECS[cid].get('phase') for k, cid in enumerate(ids)}

    def map_to(self, other):
        """positions of this package's chemicals in `other` (a superset package)"""
        return [other.pos[i] for i in self.ids]


def chemical(cid):
    key = ('chem', cid)
    if key not in _cache:
        tmo = env.import_thermosteam()
        _cache[key] = tmo.Chemical(cid, **CHEMICAL_SPECS.get(cid, {}))
    return _cache[key]


def package(pid):
    key = ('pkg', pid)
    if key not in _cache:
        _cache[key] = Package(pid)
    return _cache[key]


def reset_globals():
    """Seam S8: process-global state a run could otherwise inherit from earlier runs."""
    tmo = env.import_thermosteam()
    from thermosteam import network, indexer
    for cls in (network.AbstractStream, network.AbstractUnit):
        reg = cls.registry
        reg.data.clear()
        reg.safe_to_replace.clear()
        reg.context_levels.clear()
        reg.registered_objects.clear()
        cls.ticket_numbers.clear()
        cls.unregistered_ticket_number = 0
    network.AbstractStream.feed_priorities.clear()
    indexer.MaterialIndexer._index_caches.clear()
    for pid in PACKAGES:
        if ('pkg', pid) in _cache:
            _cache[('pkg', pid)].compiled._index_cache.clear()
    # conversion factors memoised per units object (a restarted process starts without them)
    from thermosteam import units_of_measure as _uom
    for u in _uom.AbsoluteUnitsOfMeasure._cache.values():
        u.factor_cache.clear()
    tmo.settings.set_thermo(package('A').thermo)


import contextlib


@contextlib.contextmanager
def no_compiled_cache_growth():
    """Unpickling a stream by value re-creates its CompiledChemicals, which thermosteam registers in the
    class-level CompiledChemicals._cache (keyed by the tuple of Chemical objects) and never releases: about
    1 MB per unpickled stream.  The entries added inside this context are removed again on exit (the objects
    built from them stay valid; only the global registry forgets them), so long runs do not exhaust memory."""
    tmo = env.import_thermosteam()
    from thermosteam import indexer
    cache = tmo.CompiledChemicals._cache
    icache = indexer.MaterialIndexer._index_caches      # keyed by (phases, chemicals): same story
    before = set(cache)
    ibefore = set(icache)
    try:
        yield
    finally:
        for k in [k for k in cache if k not in before]:
            del cache[k]
        for k in [k for k in icache if k not in ibefore]:
            del icache[k]
