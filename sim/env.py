"""Process environment for every simulator entry point.

One integer decides a run; for that to be true the interpreter itself has to be
pinned: string hashing (set/dict order of str keys), thermosteam's display
preferences file, the numba on-disk cache location and where `thermosteam` is
imported from (always the *current working tree* of VERIF_REPO, default /repo).
"""
import os
import sys

VERIF_ROOT = os.path.dirname(os.path.dirname(os.path.abspath(__file__)))
CACHE_DIR = os.path.join(VERIF_ROOT, '.cache')

PINNED = {
    'PYTHONHASHSEED': '0',
    'DISABLE_PREFERENCES': '1',
    # scratch copies of the repository (seeded-change evaluation) keep their compiled kernels inside the
    # scratch tree, which is removed with it; only /repo's go to /verif/.cache (numba keys its cache by path)
    'NUMBA_CACHE_DIR': (os.path.join(CACHE_DIR, 'numba') if os.environ.get('VERIF_REPO', '/repo') == '/repo'
                        else os.path.join(os.environ['VERIF_REPO'], '.numba_cache')),
    'PYTHONWARNINGS': 'ignore',
    'OMP_NUM_THREADS': '1',
    'OPENBLAS_NUM_THREADS': '1',
    'MKL_NUM_THREADS': '1',
    'NUMBA_NUM_THREADS': '1',
    'PYTHONDONTWRITEBYTECODE': '1',
}


def repo_path():
    return os.environ.get('VERIF_REPO', '/repo')


def ensure_env(allow_hashseed_override=False):
    """Re-exec the interpreter once if the pinned environment is not in place."""
    want = dict(PINNED)
    if allow_hashseed_override and os.environ.get('VERIF_HASHSEED'):
        want['PYTHONHASHSEED'] = os.environ['VERIF_HASHSEED']
    need = {k: v for k, v in want.items() if os.environ.get(k) != v}
    if need and os.environ.get('VERIF_ENV_PINNED') != '1':
        env = dict(os.environ)
        env.update(want)
        env['VERIF_ENV_PINNED'] = '1'
        os.makedirs(want['NUMBA_CACHE_DIR'], exist_ok=True)
        os.execve(sys.executable, list(sys.orig_argv), env)
    os.makedirs(os.environ.get('NUMBA_CACHE_DIR', want['NUMBA_CACHE_DIR']), exist_ok=True)
    setup_path()


def setup_path():
    rp = repo_path()
    if VERIF_ROOT not in sys.path:
        sys.path.insert(0, VERIF_ROOT)
    # thermosteam must come from the working tree under test
    if rp in sys.path:
        sys.path.remove(rp)
    sys.path.insert(0, rp)


def import_thermosteam():
    """Import thermosteam from VERIF_REPO and assert that this is what we got."""
    import warnings
    warnings.filterwarnings('ignore')
    setup_path()
    _harden_numba_cache()
    import thermosteam as tmo
    here = os.path.realpath(os.path.dirname(os.path.dirname(tmo.__file__)))
    if here != os.path.realpath(repo_path()):
        raise RuntimeError(f'thermosteam imported from {here}, expected {repo_path()}')
    return tmo


_numba_patched = False


def _harden_numba_cache():
    """numba 0.60 can fail while SAVING a freshly compiled overload to its on-disk cache
    (ReferenceError: underlying object has vanished, raised from Cache.save_overload when a jitted
    flexsolve solver receives a function argument).  The exception surfaces in whichever call happens
    to compile first in a process, which would make a run depend on what ran before it in the same
    worker.  A failed cache write must never fail the computation: swallow it (the overload stays
    compiled in memory)."""
    global _numba_patched
    if _numba_patched:
        return
    try:
        import numba.core.caching as nc
    except Exception:
        return
    orig_save = nc.Cache.save_overload

    def save_overload(self, sig, data):
        try:
            return orig_save(self, sig, data)
        except Exception:
            return None
    nc.Cache.save_overload = save_overload
    _numba_patched = True
