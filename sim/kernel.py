"""Simulation kernel: seed derivation, run loop, trace, digest, violation class.

A *world* is one simulated universe of real thermosteam objects plus its
reference model.  A world implements

    gen(rngs)  -> concrete JSON event or None     (online generation, may look
                                                  at model state; draws only
                                                  from the PRNGs in `rngs`)
    apply(ev)  -> observation (JSON-able)          (executes one event against
                                                  the real code, updates the
                                                  model, evaluates the step
                                                  oracles; raises Violation;
                                                  returns 'skip:...' when the
                                                  event's precondition is false)
    finish()   -> None                             (end-of-run invariants)

Replay executes a recorded event list through `apply` only: no PRNG is used, so a
replay is a pure function of the file and the code.
"""
import hashlib
import json
import random
import signal
import traceback
from collections import Counter

SCHEMA = 1


def subseed(seed, *parts):
    h = hashlib.blake2b(repr((int(seed),) + tuple(parts)).encode(), digest_size=8)
    return int.from_bytes(h.digest(), 'big')


class Rngs:
    """Separate PRNG streams, all derived from one integer."""
    __slots__ = ('cfg', 'universe', 'sched', 'args', 'fault')

    def __init__(self, seed, prop, run):
        for name in self.__slots__:
            setattr(self, name, random.Random(subseed(seed, prop, run, name)))


class Violation(Exception):
    def __init__(self, prop, oracle, msg, detail=None):
        super().__init__(f'{prop}/{oracle}: {msg}')
        self.prop = prop
        self.oracle = oracle
        self.msg = msg
        self.detail = detail

    def key(self):
        return (self.prop, self.oracle)

    def to_json(self):
        return {'property': self.prop, 'oracle': self.oracle, 'msg': self.msg,
                'detail': self.detail}


class Inconclusive(Exception):
    """The run could not be judged (watchdog, unrelated mechanism blew up)."""


class HarnessError(Exception):
    """A bug in the harness itself; never reported as a VIOLATION."""


class StepTimeout(BaseException):
    pass


def _alarm(signum, frame):
    raise StepTimeout()


class Watchdog:
    """Per-step wall-clock guard.  A stall makes the run inconclusive."""

    def __init__(self, seconds):
        self.seconds = seconds

    def __enter__(self):
        if self.seconds:
            self.old = signal.signal(signal.SIGALRM, _alarm)
            signal.setitimer(signal.ITIMER_REAL, self.seconds)
        return self

    def __exit__(self, *exc):
        if self.seconds:
            signal.setitimer(signal.ITIMER_REAL, 0)
            signal.signal(signal.SIGALRM, self.old)
        return False


def canon(x):
    """Canonical JSON text (floats via repr, keys sorted)."""
    return json.dumps(x, sort_keys=True, separators=(',', ':'), default=_default)


def _default(o):
    import numpy as np
    if isinstance(o, (np.integer,)):
        return int(o)
    if isinstance(o, (np.floating,)):
        return float(o)
    if isinstance(o, np.bool_):
        return bool(o)
    if isinstance(o, np.ndarray):
        return o.tolist()
    if isinstance(o, (set, frozenset)):
        return sorted(o)
    if isinstance(o, tuple):
        return list(o)
    return repr(o)


class Digest:
    def __init__(self):
        self.h = hashlib.blake2b(digest_size=16)
        self.n = 0

    def add(self, ev, obs):
        self.h.update(canon(ev).encode())
        self.h.update(b'|')
        self.h.update(canon(obs).encode())
        self.h.update(b'\n')
        self.n += 1

    def hex(self):
        return self.h.hexdigest()


class RunResult:
    __slots__ = ('prop', 'engine', 'seed', 'run', 'cfg', 'events', 'digest', 'violation',
                 'status', 'stats', 'states', 'interleaving', 'steps', 'note', 'at')

    def to_trace(self):
        return {
            'schema': SCHEMA, 'property': self.prop, 'engine': self.engine,
            'seed': self.seed, 'run': self.run, 'cfg': self.cfg,
            'events': self.events, 'digest': self.digest,
            'violation': self.violation.to_json() if self.violation else None,
            'violation_at': self.at,
        }


def _h64(x):
    return int.from_bytes(hashlib.blake2b(canon(x).encode(), digest_size=8).digest(), 'big')


def execute(world, events=None, rngs=None, max_steps=None, step_timeout=20.0,
            collect=True):
    """Run a world either generatively (rngs given) or from a recorded list.

    Returns (executed_events, digest_hex, violation_or_None, status, note, at)
    status: 'ok' | 'violation' | 'inconclusive'
    """
    dig = Digest()
    done = []
    states = set()
    inter = hashlib.blake2b(digest_size=8)
    violation = None
    status = 'ok'
    note = None
    at = None
    i = 0
    try:
        while True:
            if events is not None:
                if i >= len(events):
                    break
                ev = events[i]
            else:
                if max_steps is not None and i >= max_steps:
                    break
                ev = world.gen(rngs)
                if ev is None:
                    break
            i += 1
            done.append(ev)
            try:
                with Watchdog(step_timeout):
                    obs = world.apply(ev)
            except StepTimeout:
                status = 'inconclusive'
                note = f'watchdog at event {i-1} {ev.get("op")}'
                break
            dig.add(ev, obs)
            if collect:
                try:
                    states.add(_h64(world.abstract_state()))
                except Violation:
                    raise
                except Exception:
                    pass
                sh = world.shared_touch(ev)
                if sh is not None:
                    inter.update(canon(sh).encode())
        else:
            pass
        if status == 'ok':
            with Watchdog(step_timeout * 3 if step_timeout else 0):
                world.finish()
    except Violation as v:
        violation = v
        status = 'violation'
        at = i - 1
    except StepTimeout:
        status = 'inconclusive'
        note = 'watchdog in finish'
    except Inconclusive as e:
        status = 'inconclusive'
        note = str(e)
    return done, dig.hex(), violation, status, note, at, states, inter.hexdigest()


def run_generative(engine, prop, seed, run, tier):
    """One simulated run decided by (seed, prop, run)."""
    rngs = Rngs(seed, prop, run)
    cfg = engine.make_cfg(rngs.cfg, prop, tier)
    world = engine.World(prop, cfg)
    res = RunResult()
    res.prop, res.engine, res.seed, res.run, res.cfg = prop, engine.NAME, seed, run, cfg
    (res.events, res.digest, res.violation, res.status, res.note, res.at,
     res.states, res.interleaving) = execute(
        world, rngs=rngs, max_steps=cfg['steps'], step_timeout=cfg.get('step_timeout', 20.0))
    res.stats = world.stats
    res.steps = len(res.events)
    return res


def run_replay(engine, trace, collect=False):
    world = engine.World(trace['property'], trace['cfg'])
    res = RunResult()
    res.prop, res.engine = trace['property'], engine.NAME
    res.seed, res.run, res.cfg = trace.get('seed'), trace.get('run'), trace['cfg']
    (res.events, res.digest, res.violation, res.status, res.note, res.at,
     res.states, res.interleaving) = execute(
        world, events=trace['events'], step_timeout=trace['cfg'].get('step_timeout', 20.0),
        collect=collect)
    res.stats = world.stats
    res.steps = len(res.events)
    return res


class BaseWorld:
    """Defaults shared by engine worlds."""

    def __init__(self, prop, cfg):
        self.prop = prop
        self.cfg = cfg
        self.stats = Counter()

    def abstract_state(self):
        return None

    def shared_touch(self, ev):
        return None

    def finish(self):
        pass

    def fail(self, oracle, msg, detail=None):
        raise Violation(self.prop, oracle, msg, detail)
