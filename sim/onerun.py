"""python -m sim.onerun <prop> <seed> <run> [--tier quick]  -> prints the run's event digest.
Used by the determinism self-test (fresh interpreter, optional other PYTHONHASHSEED via VERIF_HASHSEED)."""
import sys
from . import env


def main(argv):
    env.ensure_env(allow_hashseed_override=True)
    prop, seed, runs = argv[1], int(argv[2]), [int(x) for x in argv[3].split(',')]
    from checks.props import PROPS
    from .runner import get_engine, open_regions
    from .kernel import run_generative
    spec = PROPS[prop]
    tcfg = dict(spec['quick'])
    tcfg['tier'] = 'quick'
    tcfg['regions'] = open_regions(prop)
    engine = get_engine(spec['engine'])
    for run in runs:
        res = run_generative(engine, prop, seed, run, tcfg)
        print(f'DIGEST {prop} {seed} {run} {res.digest} {res.status} {res.steps}', flush=True)
    return 0


if __name__ == '__main__':
    sys.exit(main(sys.argv))
