"""Seams the simulator owns (DESIGN section 1).

S7  seeded hash order of units and streams (network.py puts id()-hashed objects in sets)
S8  reset of process-global registries between runs
S2/S3 fault wrappers live in sim/faults.py (they need thermosteam's thermo objects)
"""
import warnings

from .kernel import subseed

_hash_state = {'seed': 0, 'n': 0}


def reset_hash(seed):
    _hash_state['seed'] = int(seed)
    _hash_state['n'] = 0


def next_hash():
    _hash_state['n'] += 1
    # python hashes are reduced modulo 2**61-1; keep them positive and well spread
    return subseed(_hash_state['seed'], 'h', _hash_state['n']) >> 3


_classes = {}


def stub_classes():
    """Thin subclasses of the real AbstractStream / AbstractUnit whose only own
    behaviour is a seeded __hash__ (assigned in __new__: the ID registry hashes the
    object during __init__)."""
    if _classes:
        return _classes
    from thermosteam.network import AbstractStream, AbstractUnit

    class HStream(AbstractStream):
        __slots__ = ('_h', '_fm')

        @property
        def F_mass(self):
            return getattr(self, '_fm', 0.)

        def __new__(cls, *args, **kwargs):
            self = super().__new__(cls)
            self._h = next_hash()
            return self

        def __hash__(self):
            return self._h

        def __eq__(self, other):
            return self is other

    _classes['HStream'] = HStream

    def unit_class(n_ins, n_outs, ins_fixed, outs_fixed):
        key = ('U', n_ins, n_outs, ins_fixed, outs_fixed)
        if key in _classes:
            return _classes[key]

        class HUnit(AbstractUnit):
            _N_ins = n_ins
            _N_outs = n_outs
            _ins_size_is_fixed = ins_fixed
            _outs_size_is_fixed = outs_fixed
            Stream = HStream
            _units = {}

            def __new__(cls, *args, **kwargs):
                self = super().__new__(cls)
                self._h = next_hash()
                return self

            def __hash__(self):
                return self._h

            def __eq__(self, other):
                return self is other

            def _init(self):
                pass

        HUnit.__name__ = f'U{n_ins}{"f" if ins_fixed else "v"}{n_outs}{"f" if outs_fixed else "v"}'
        HUnit.line = HUnit.__name__
        _classes[key] = HUnit
        return HUnit

    _classes['unit_class'] = unit_class
    return _classes


def reset_network_globals():
    """S8: registries, ticket numbers, feed priorities, disjunctions."""
    import thermosteam as tmo
    from thermosteam import network
    for cls in (network.AbstractStream, network.AbstractUnit):
        reg = cls.registry
        reg.data.clear()
        reg.safe_to_replace.clear()
        reg.context_levels.clear()
        reg.registered_objects.clear()
        cls.ticket_numbers.clear()
        cls.unregistered_ticket_number = 0
    network.AbstractStream.feed_priorities.clear()
    network.disjunctions.clear()
    network.DOCKING_WARNINGS = True
    warnings.filterwarnings('ignore')
