"""python -m sim.replay <file> [--json]

Re-executes a recorded trace in this (fresh) interpreter.  No PRNG is used.
exit 1  the recorded violation class reproduces (prints VIOLATION-REPRODUCED)
exit 0  the trace runs clean
exit 2  harness problem / different violation class
"""
import json
import sys

from . import env


def main(argv):
    env.ensure_env()
    path = argv[1]
    as_json = '--json' in argv
    with open(path) as f:
        trace = json.load(f)
    from .runner import get_engine
    from .kernel import run_replay
    engine = get_engine(trace['engine'])
    res = run_replay(engine, trace)
    want = trace.get('violation')
    out = {'status': res.status, 'digest': res.digest, 'note': res.note,
           'violation': res.violation.to_json() if res.violation else None,
           'recorded_digest': trace.get('digest')}
    if as_json:
        print(json.dumps(out, default=str))
    if res.violation is None:
        if not as_json:
            print(f'replay clean: {len(res.events)} events, status={res.status}')
        return 0
    v = res.violation
    same = want is None or (want['property'], want['oracle']) == (v.prop, v.oracle)
    if not as_json:
        print(f'VIOLATION-REPRODUCED property={v.prop} oracle={v.oracle} at event {res.at}: {v.msg}')
        if v.detail is not None:
            print(json.dumps(v.detail, indent=1, default=str)[:4000])
        if trace.get('digest') and 'shrunk_from' in trace:
            print('digest match:', trace['digest'] == res.digest)
    return 1 if same else 2


if __name__ == '__main__':
    sys.exit(main(sys.argv))
