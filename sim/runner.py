"""Batch runner: process pool, tiers, violation handling, known findings, evidence."""
import faulthandler
import importlib
import json
import os
import subprocess
import sys
import time
import traceback
from collections import Counter
from concurrent.futures import ProcessPoolExecutor, as_completed
import multiprocessing as mp

from . import env
from .kernel import run_generative, run_replay, canon

ENGINES = {
    'netsim': 'engines.netsim',
    'sparsesim': 'engines.sparsesim',
    'streamsim': 'engines.streamsim',
    'eqsim': 'engines.eqsim',
    'eqsim_ll': 'engines.eqsim_ll',
    'rxnsim': 'engines.rxnsim',
    'sepsim': 'engines.sepsim',
}

KNOWN_FINDINGS = os.path.join(env.VERIF_ROOT, 'known_findings.json')
REPLAY_DIR = os.path.join(env.VERIF_ROOT, 'replays')
EVIDENCE_DIR = os.path.join(env.VERIF_ROOT, 'evidence')

_engine_cache = {}


def get_engine(name):
    if name not in _engine_cache:
        env.setup_path()
        _engine_cache[name] = importlib.import_module(ENGINES[name])
    return _engine_cache[name]


def load_known_findings():
    if not os.path.exists(KNOWN_FINDINGS):
        return {'findings': [], 'fixed': []}
    with open(KNOWN_FINDINGS) as f:
        return json.load(f)


def open_findings(prop):
    kf = load_known_findings()
    return [f for f in kf.get('findings', []) if f['property'] == prop]


def open_regions(prop):
    """Regions are excluded engine-wide: a defect listed under one property can
    disturb the oracle of another property served by the same engine."""
    kf = load_known_findings()
    out = []
    for f in kf.get('findings', []):
        for r in f.get('regions', []):
            if r not in out:
                out.append(r)
    return out


# ---------------------------------------------------------------- workers

def _worker_init(engine_name):
    faulthandler.enable()
    env.setup_path()
    get_engine(engine_name)


def work_chunk(engine_name, prop, seed, tier_cfg, run_indices):
    engine = get_engine(engine_name)
    agg = {
        'runs': 0, 'steps': 0, 'stats': Counter(), 'states': set(), 'inter': set(),
        'status': Counter(), 'violation': None, 'samples': [], 'notes': [],
        'digests': {}, 'harness_error': None, 'nontrivial_runs': 0,
    }
    for r in run_indices:
        try:
            res = run_generative(engine, prop, seed, r, tier_cfg)
        except BaseException as e:  # harness bug: classify apart
            if isinstance(e, (KeyboardInterrupt, SystemExit)):
                raise
            agg['harness_error'] = {'run': r, 'error': repr(e),
                                    'traceback': traceback.format_exc()}
            break
        agg['runs'] += 1
        agg['steps'] += res.steps
        agg['stats'].update(res.stats)
        agg['states'] |= res.states
        agg['inter'].add(res.interleaving)
        agg['status'][res.status] += 1
        agg['digests'][r] = res.digest
        if res.stats.get('mechanism_ops', 0) > 0:
            agg['nontrivial_runs'] += 1
        if res.note:
            agg['notes'].append(f'run {r}: {res.note}')
        if len(agg['samples']) < 1:
            agg['samples'].append({'run': r, 'cfg': res.cfg, 'events': res.events[:25]})
        if res.violation is not None and agg['violation'] is None:
            agg['violation'] = res.to_trace()
            break
    return agg


def work_replay(engine_name, trace):
    engine = get_engine(engine_name)
    res = run_replay(engine, trace)
    return {'violation': res.violation.to_json() if res.violation else None,
            'digest': res.digest, 'status': res.status, 'note': res.note}


def work_shrink(engine_name, trace, budget_s):
    from .shrink import shrink
    engine = get_engine(engine_name)
    key = (trace['violation']['property'], trace['violation']['oracle'])
    out, tests = shrink(engine, trace, key, budget_s=budget_s)
    out['shrink_tests'] = tests
    return out


# ---------------------------------------------------------------- parent

def fresh_replay(path, timeout=300):
    """Replay a file in a fresh interpreter; returns (exitcode, stdout)."""
    p = subprocess.run([sys.executable, '-m', 'sim.replay', path, '--json'],
                       cwd=env.VERIF_ROOT, capture_output=True, text=True, timeout=timeout)
    return p.returncode, p.stdout, p.stderr


def write_evidence(prop, tier, seed, coverage, wall, violations, assumptions, extra=None):
    os.makedirs(EVIDENCE_DIR, exist_ok=True)
    ev = {
        'property_id': prop, 'tier': tier, 'seed': int(seed), 'level': 'exploration',
        'coverage': coverage, 'assumptions': assumptions, 'wall_s': round(wall, 2),
        'violations': violations,
    }
    if extra:
        ev.update(extra)
    path = os.path.join(EVIDENCE_DIR, f'{prop}.json')
    tmp = path + '.tmp'
    with open(tmp, 'w') as f:
        json.dump(ev, f, indent=1, sort_keys=True, default=str)
    os.replace(tmp, path)
    return path


def run_check(prop, spec, tier):
    """spec: {'engine', 'quick': {...}, 'thorough': {...}, 'rule', 'assumptions', 'components'}"""
    t0 = time.time()
    engine_name = spec['engine']
    tcfg = dict(spec[tier])
    seed = int(os.environ.get('VERIF_SEED', tcfg.get('seed', 1)))
    tcfg['tier'] = tier
    tcfg['regions'] = [] if os.environ.get('VERIF_REGIONS') == 'none' else open_regions(prop)
    nworkers = int(os.environ.get('VERIF_WORKERS', tcfg.get('workers', min(16, os.cpu_count() or 4))))
    runs = int(os.environ.get('VERIF_RUNS', tcfg['runs']))
    chunk = int(tcfg.get('chunk', 25))
    deadline = t0 + float(os.environ.get('VERIF_DEADLINE', tcfg['deadline_s']))
    print(f'VERIF_SEED={seed} property={prop} tier={tier} engine={engine_name} runs={runs} '
          f'workers={nworkers} repo={env.repo_path()}', flush=True)

    if os.path.isdir(REPLAY_DIR):
        for fn in os.listdir(REPLAY_DIR):
            if fn.startswith(prop + '-'):
                os.remove(os.path.join(REPLAY_DIR, fn))
    ctx = mp.get_context('fork')
    pool = ProcessPoolExecutor(max_workers=nworkers, mp_context=ctx,
                               initializer=_worker_init, initargs=(engine_name,))
    exit_code = 0
    known_lines = []
    try:
        # 1. known-finding witnesses
        kfs = open_findings(prop)
        kf_report = []
        for f in kfs:
            wpath = os.path.join(env.VERIF_ROOT, f['witness_replay'])
            with open(wpath) as fh:
                trace = json.load(fh)
            trace['cfg']['regions'] = []   # a witness is replayed with nothing excluded
            r = pool.submit(work_replay, trace['engine'], trace).result(timeout=600)
            still = r['violation'] is not None
            kf_report.append({'id': f['id'], 'still_violates': still})
            if still:
                line = f"KNOWN-FINDING: property={prop} {f['id']}: {f['what_fails']}"
                print(line, flush=True)
                known_lines.append(line)
            else:
                print(f"note: witness of listed finding {f['id']} no longer violates "
                      f"(repaired?) - its region is still excluded until the entry is moved to fixed",
                      flush=True)
        # 2. regression replays of fixed findings: must pass
        kf_all = load_known_findings()
        regressions = []
        for f in kf_all.get('fixed', []):
            if f['property'] != prop or not f.get('witness_replay'):
                continue
            wpath = os.path.join(env.VERIF_ROOT, f['witness_replay'])
            with open(wpath) as fh:
                trace = json.load(fh)
            r = pool.submit(work_replay, trace['engine'], trace).result(timeout=600)
            regressions.append({'id': f['id'], 'violates': r['violation'] is not None})
            if r['violation'] is not None:
                # the repaired defect is back: report it as a violation with its witness
                print(f"VIOLATION property={prop} replay={wpath}", flush=True)
                print(f"  (regression of fixed finding {f['id']}: {r['violation']['msg']})", flush=True)
                exit_code = 1
        # 3. exploration
        indices = list(range(runs))
        chunks = [indices[i:i + chunk] for i in range(0, len(indices), chunk)]
        futs = {}
        agg = {'runs': 0, 'steps': 0, 'stats': Counter(), 'states': set(), 'inter': set(),
               'status': Counter(), 'samples': [], 'notes': [], 'nontrivial_runs': 0}
        violations = []
        harness_errors = []
        submitted = 0
        pending = set()
        it = iter(chunks)
        max_inflight = nworkers * 2
        stop_submitting = False

        def submit_more():
            nonlocal submitted, stop_submitting
            while not stop_submitting and len(pending) < max_inflight:
                try:
                    c = next(it)
                except StopIteration:
                    stop_submitting = True
                    return
                fu = pool.submit(work_chunk, engine_name, prop, seed, tcfg, c)
                futs[fu] = c
                pending.add(fu)
                submitted += 1

        submit_more()
        hard_deadline = deadline + float(tcfg.get('grace_s', 60))
        while pending:
            done = [f for f in list(pending) if f.done()]
            if not done:
                time.sleep(0.05)
                if time.time() > hard_deadline:
                    # the machine is too slow/loaded to finish the chunks in flight: abandon them.  Only an
                    # error when too little was explored (min_fraction below), never a verdict by itself
                    abandoned = len(pending)
                    print(f'note: {abandoned} chunk(s) still running at the hard deadline were abandoned', flush=True)
                    pending.clear()
                    break
                continue
            for fu in done:
                pending.discard(fu)
                try:
                    a = fu.result()
                except BaseException as e:
                    harness_errors.append({'error': repr(e), 'chunk': futs[fu][:1]})
                    continue
                agg['runs'] += a['runs']
                agg['steps'] += a['steps']
                agg['stats'].update(a['stats'])
                agg['states'] |= a['states']
                agg['inter'] |= a['inter']
                agg['status'].update(a['status'])
                agg['nontrivial_runs'] += a['nontrivial_runs']
                agg['notes'].extend(a['notes'][:3])
                if len(agg['samples']) < 3:
                    agg['samples'].extend(a['samples'][:1])
                if a['harness_error']:
                    harness_errors.append(a['harness_error'])
                if a['violation']:
                    violations.append(a['violation'])
            if violations or harness_errors or time.time() > deadline:
                stop_submitting = True
            submit_more()
        deadline_hit = time.time() > deadline and agg['runs'] < runs

        # 4. violations: minimise, write replay, confirm in a fresh interpreter
        reported = []
        unreproducible = []
        if violations:
            violations.sort(key=lambda t: t['run'])
            seen_keys = set()
            for tr in violations:
                key = (tr['violation']['property'], tr['violation']['oracle'])
                if key in seen_keys or len(reported) >= 3 or len(unreproducible) >= 6:
                    continue
                try:
                    small = pool.submit(work_shrink, engine_name, tr,
                                        float(tcfg.get('shrink_s', 60))).result(timeout=900)
                except BaseException as e:
                    small = tr
                    small['shrink_error'] = repr(e)
                os.makedirs(REPLAY_DIR, exist_ok=True)
                path = os.path.join(REPLAY_DIR, f"{prop}-{seed}-{tr['run']}.json")
                with open(path, 'w') as fh:
                    fh.write(json.dumps(small, indent=1, sort_keys=True, default=str))
                code, out, err = fresh_replay(path)
                confirmed = code == 1
                if not confirmed:
                    # fall back to the unshrunk trace
                    with open(path, 'w') as fh:
                        fh.write(json.dumps(tr, indent=1, sort_keys=True, default=str))
                    code, out, err = fresh_replay(path)
                    confirmed = code == 1
                if confirmed:
                    seen_keys.add(key)       # one report per oracle; an unconfirmed trace does not use the slot up
                    print(f"VIOLATION property={prop} replay={path}", flush=True)
                    print(f"  oracle={small['violation']['oracle']} events={len(small['events'])} "
                          f"seed={seed} run={tr['run']}: {small['violation']['msg']}", flush=True)
                    reported.append({'replay': path, 'oracle': small['violation']['oracle'],
                                     'msg': small['violation']['msg'], 'run': tr['run'],
                                     'events': len(small['events'])})
                    exit_code = 1
                else:
                    # a violation that a fresh interpreter cannot reproduce from its own trace is not reportable
                    # (it depended on something outside the trace, e.g. process-global numeric caches of a
                    # dependency): counted as an inconclusive run, shown in the evidence, never a verdict
                    unreproducible.append({'run': tr['run'], 'oracle': tr['violation']['oracle'],
                                           'msg': tr['violation']['msg'][:300]})
                    print(f"note: run {tr['run']} ({tr['violation']['oracle']}) did not reproduce in a fresh "
                          f"interpreter - counted as inconclusive", flush=True)
                    try:
                        os.remove(path)
                    except OSError:
                        pass
        if harness_errors:
            for he in harness_errors[:3]:
                print('HARNESS-ERROR', json.dumps(he, default=str)[:4000], file=sys.stderr, flush=True)
            if exit_code == 0:
                exit_code = 2
        min_runs = max(1, int(runs * float(tcfg.get('min_fraction', 0.05))))
        if exit_code == 0 and agg['runs'] < min_runs:
            print(f'HARNESS-ERROR only {agg["runs"]} of {runs} runs finished before the deadline',
                  file=sys.stderr, flush=True)
            exit_code = 2
        wall = time.time() - t0
        stats = agg['stats']
        faults = {k[6:]: v for k, v in stats.items() if k.startswith('fault:')}
        probes = {k[6:]: v for k, v in stats.items() if k.startswith('probe:')}
        ops = {k[3:]: v for k, v in stats.items() if k.startswith('op:')}
        regions = {k[7:]: v for k, v in stats.items() if k.startswith('region:')}
        misc = {k: v for k, v in stats.items()
                if not k.startswith(('fault:', 'probe:', 'op:', 'region:'))}
        coverage = {
            'evaluations': agg['runs'],
            'distinct_nontrivial': len(agg['states']),
            'rule': spec['rule'],
            'samples': agg['samples'][:2],
            'exhaustive': False,
            'runs_planned': runs,
            'deadline_hit': bool(deadline_hit),
            'steps_simulated_time': agg['steps'],
            'runs_per_hour': round(agg['runs'] / wall * 3600) if wall > 0 else 0,
            'steps_per_hour': round(agg['steps'] / wall * 3600) if wall > 0 else 0,
            'nontrivial_runs': agg['nontrivial_runs'],
            'distinct_interleavings': len(agg['inter']),
            'run_status': dict(agg['status']),
            'faults_fired': faults,
            'probes': probes,
            'operations': ops,
            'diverted_by_known_finding_region': regions,
            'other_counters': misc,
            'inconclusive_notes': agg['notes'][:10],
            'known_findings': kf_report,
            'fixed_regressions': regressions,
            'regions_excluded': tcfg['regions'],
            'components': spec.get('components', {}),
            'workers': nworkers,
            'violations_reported': reported,
            'unreproducible_violations': unreproducible,
            'harness_errors': len(harness_errors),
        }
        write_evidence(prop, tier, seed, coverage, wall, len(reported) + sum(
            1 for r in regressions if r['violates']), spec.get('assumptions', []))
        print(f'done property={prop} tier={tier} runs={agg["runs"]}/{runs} steps={agg["steps"]} '
              f'states={len(agg["states"])} interleavings={len(agg["inter"])} '
              f'status={dict(agg["status"])} wall={wall:.1f}s exit={exit_code}', flush=True)
    finally:
        procs = list((getattr(pool, '_processes', None) or {}).values())
        pool.shutdown(wait=False, cancel_futures=True)
        for p in procs:
            try:
                p.terminate()
            except Exception:
                pass
    return exit_code
