"""Trace minimisation: ddmin over events, then fault removal, then engine-supplied
argument simplifications, while the same violation class (property, oracle) persists.
"""
import copy
import time

from .kernel import run_replay


def _violates(engine, trace, events, key):
    t = dict(trace)
    t['events'] = events
    try:
        res = run_replay(engine, t)
    except Exception:
        return False
    return res.violation is not None and res.violation.key() == key, res


def shrink(engine, trace, key, budget_s=60.0, max_tests=4000):
    t0 = time.time()
    tests = 0
    events = list(trace['events'])
    # cut everything after the violating event
    at = trace.get('violation_at')
    if at is not None and at + 1 < len(events):
        cand = events[:at + 1]
        ok = _violates(engine, trace, cand, key)
        tests += 1
        if ok and ok[0]:
            events = cand

    def test(cand):
        nonlocal tests
        tests += 1
        r = _violates(engine, trace, cand, key)
        return bool(r and r[0])

    def out_of_budget():
        return time.time() - t0 > budget_s or tests > max_tests

    # ddmin
    n = 2
    while len(events) >= 2 and not out_of_budget():
        chunk = max(1, len(events) // n)
        reduced = False
        # try complements (remove one chunk)
        i = 0
        while i < len(events):
            cand = events[:i] + events[i + chunk:]
            if cand and test(cand):
                events = cand
                n = max(n - 1, 2)
                reduced = True
                break
            i += chunk
            if out_of_budget():
                break
        if not reduced:
            if chunk == 1:
                break
            n = min(n * 2, len(events))
    # single-event deletion to fixpoint
    changed = True
    while changed and not out_of_budget():
        changed = False
        for i in range(len(events) - 1, -1, -1):
            if len(events) <= 1:
                break
            cand = events[:i] + events[i + 1:]
            if test(cand):
                events = cand
                changed = True
            if out_of_budget():
                break
    # drop faults
    for i, ev in enumerate(events):
        if out_of_budget():
            break
        if ev.get('fault'):
            cand = copy.deepcopy(events)
            cand[i].pop('fault')
            if test(cand):
                events = cand
    # engine argument simplification
    simp = getattr(engine, 'simplify_event', None)
    if simp is not None:
        changed = True
        rounds = 0
        while changed and not out_of_budget() and rounds < 3:
            changed = False
            rounds += 1
            for i in range(len(events)):
                for alt in simp(events[i]):
                    if out_of_budget():
                        break
                    cand = events[:i] + [alt] + events[i + 1:]
                    if test(cand):
                        events = cand
                        changed = True
                        break
    out = dict(trace)
    out['events'] = events
    res = run_replay(engine, out)
    if res.violation is None or res.violation.key() != key:
        # never hand back something that does not reproduce
        return trace, tests
    out['violation'] = res.violation.to_json()
    out['violation_at'] = res.at
    out['digest'] = res.digest
    out['shrunk_from'] = len(trace['events'])
    return out, tests
