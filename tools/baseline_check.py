#!/venv/bin/python
"""Run the repository's pinned baseline (guard OFF) and compare with /root/.vp/BASELINE.json.
exit 0 iff every stable_pass test passes."""
import json, os, subprocess, sys, tempfile
import xml.etree.ElementTree as ET

repo = os.environ.get('VERIF_REPO', '/repo')
base = json.load(open('/root/.vp/BASELINE.json'))
want = set(base['stable_pass'])
with tempfile.TemporaryDirectory() as d:
    xml = os.path.join(d, 'junit.xml')
    env = dict(os.environ)
    env.pop('THERMOSTEAM_VERIF', None)
    p = subprocess.run(['/venv/bin/python', '-m', 'pytest', '-ra', '-q', '-p', 'no:cacheprovider',
                        '--timeout=900', '--continue-on-collection-errors', f'--junitxml={xml}'],
                       cwd=repo, env=env, capture_output=True, text=True)
    root = ET.parse(xml).getroot()
passed = set()
for tc in root.iter('testcase'):
    bad = any(ch.tag in ('failure', 'error', 'skipped') for ch in tc)
    name = f"{tc.get('classname')}::{tc.get('name')}"
    if not bad:
        passed.add(name)
missing = sorted(want - passed)
print(f'baseline: {len(want & passed)}/{len(want)} stable tests pass; {len(passed)} passed in total')
for m in missing[:20]:
    print('  NOT PASSING:', m)
sys.exit(1 if missing else 0)
