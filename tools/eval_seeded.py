#!/venv/bin/python
"""Evaluate one seeded change produced by an independent sub-agent.
usage: tools/eval_seeded.py <seeded-id> <PROP> <change.diff> <demo.py> [notes.md] [--tier quick] [--extra-props C01,C13]
Steps (all in a scratch worktree of /repo HEAD outside /repo and /verif, removed afterwards):
  1. demo on the pristine tree  -> must exit 0
  2. patch applies; demo on the patched tree -> must exit != 0
  3. pinned baseline suite on the patched tree -> 210/210 stable tests must still pass
  4. the property's check (and optional further checks) against the patched tree -> caught (exit 1) or missed
Writes /verif/seeded/<id>/{patch.diff, demo.py, notes.md, meta.json}."""
import json, os, re, shutil, subprocess, sys, time
ROOT = os.path.dirname(os.path.dirname(os.path.abspath(__file__)))
PY = '/venv/bin/python'


def sh(cmd, **kw):
    return subprocess.run(cmd, capture_output=True, text=True, **kw)


def main():
    args = [a for a in sys.argv[1:] if not a.startswith('--')]
    sid, prop, diff, demo = args[:4]
    notes = args[4] if len(args) > 4 else None
    tier = 'quick'
    extra = []
    for i, a in enumerate(sys.argv):
        if a == '--tier':
            tier = sys.argv[i + 1]
        if a == '--extra-props':
            extra = sys.argv[i + 1].split(',')
    out = os.path.join(ROOT, 'seeded', sid)
    os.makedirs(out, exist_ok=True)
    fast = '--fast' in sys.argv      # re-run only the checks; demo / baseline results are kept from the last full evaluation
    old_meta = None
    if fast and os.path.exists(os.path.join(out, 'meta.json')):
        old_meta = json.load(open(os.path.join(out, 'meta.json')))
    def cp(a, b):
        if os.path.abspath(a) != os.path.abspath(b):
            shutil.copy(a, b)
    cp(diff, os.path.join(out, 'patch.diff'))
    cp(demo, os.path.join(out, 'demo.py'))
    if notes and os.path.exists(notes):
        cp(notes, os.path.join(out, 'notes.md'))
    d = subprocess.check_output(['mktemp', '-d', '/tmp/repo_seed.XXXXXX'], text=True).strip()
    os.rmdir(d)
    sh(['git', '-C', '/repo', 'worktree', 'add', '-q', '--detach', d, 'HEAD'])
    meta = {'id': sid, 'property': prop, 'repo_head': subprocess.check_output(
        ['git', '-C', '/repo', 'rev-parse', '--short', 'HEAD'], text=True).strip(), 'ran': []}
    try:
        env = dict(os.environ, PYTHONPATH=d, DISABLE_PREFERENCES='1')
        if old_meta and old_meta.get('baseline_ok') is not None:
            meta['demo_pristine_exit'] = old_meta.get('demo_pristine_exit')
        else:
            p = sh([PY, os.path.join(out, 'demo.py')], cwd=d, env=env, timeout=600)
            meta['demo_pristine_exit'] = p.returncode
            meta['ran'].append(f'PYTHONPATH=<scratch> python demo.py (pristine) -> exit {p.returncode}')
        a = sh(['git', '-C', d, 'apply', os.path.join(out, 'patch.diff')])
        if a.returncode != 0:
            a = sh(['git', '-C', d, 'apply', '--3way', os.path.join(out, 'patch.diff')])
        meta['patch_applies'] = a.returncode == 0
        if a.returncode != 0:
            meta['patch_error'] = a.stderr[-500:]
        else:
            if old_meta and old_meta.get('baseline_ok') is not None:
                for k_ in ('demo_patched_exit', 'demo_patched_tail', 'baseline_with_patch', 'baseline_ok'):
                    meta[k_] = old_meta.get(k_)
                meta['ran'].append(f"demo and baseline results kept from the full evaluation at repo {old_meta.get('repo_head')}")
            else:
                p = sh([PY, os.path.join(out, 'demo.py')], cwd=d, env=env, timeout=600)
                meta['demo_patched_exit'] = p.returncode
                meta['demo_patched_tail'] = (p.stdout + p.stderr)[-400:]
                meta['ran'].append(f'git apply patch.diff; python demo.py (patched) -> exit {p.returncode}')
                b = sh([PY, os.path.join(ROOT, 'tools', 'baseline_check.py')], env=dict(os.environ, VERIF_REPO=d), timeout=1800)
                meta['baseline_with_patch'] = b.stdout.strip().splitlines()[:3]
                meta['baseline_ok'] = b.returncode == 0
                meta['ran'].append(f'VERIF_REPO=<scratch> tools/baseline_check.py -> exit {b.returncode}')
            meta['checks'] = {}
            for pr in [prop] + extra:
                t0 = time.time()
                c = sh([PY, os.path.join(ROOT, 'run_check.py'), pr, '--tier', tier],
                       env=dict(os.environ, VERIF_REPO=d), cwd=ROOT, timeout=3600)
                m = re.search(r'oracle=(\S+) events=(\d+)', c.stdout)
                line = [l for l in c.stdout.splitlines() if l.startswith('  oracle=')][:1]
                meta['checks'][pr] = {'tier': tier, 'exit': c.returncode, 'caught': c.returncode == 1,
                                      'oracle': m.group(1) if m else None,
                                      'replay_events': int(m.group(2)) if m else None,
                                      'line': line[0][:300] if line else None, 'wall_s': round(time.time() - t0, 1)}
                meta['ran'].append(f'VERIF_REPO=<scratch> run_check.py {pr} --tier {tier} -> exit {c.returncode}')
                # keep the minimised replay of the catch next to the seeded change
                r = re.search(r'VIOLATION property=\S+ replay=(\S+)', c.stdout)
                if r and os.path.exists(r.group(1)):
                    shutil.copy(r.group(1), os.path.join(out, f'caught-by-{pr}.json'))
    finally:
        sh(['git', '-C', '/repo', 'worktree', 'remove', '--force', d])
    with open(os.path.join(out, 'meta.json'), 'w') as f:
        json.dump(meta, f, indent=1)
    print(json.dumps({k: meta.get(k) for k in ('id', 'demo_pristine_exit', 'demo_patched_exit', 'baseline_ok', 'checks')}, indent=1))


main()
