#!/venv/bin/python
"""Idempotently (re-)insert the eqsim known findings into /verif/known_findings.json.

known_findings.json is edited by several people; this merges instead of overwriting: entries whose
id is missing are appended, nothing else is touched, the file is replaced atomically."""
import json, os, sys
ROOT = os.path.dirname(os.path.dirname(os.path.abspath(__file__)))
PATH = os.path.join(ROOT, 'known_findings.json')

FINDINGS = [
 {"property": "C04", "id": "KF-C04-1",
  "what_fails": "vle(T=, V=) on a stream with exactly one partitioning chemical (no non-condensable gas, no counted solute) stores the saturation PRESSURE in the stream's temperature: VLE._set_TV_chemical does `self._T = thermal_condition.T = chemical.Psat(T)`; e.g. 10 kmol/hr ethanol, vle(T=350, V=0.5) -> stream.T = 95203.47 (and P is left untouched)",
  "regions": ["C04-TV-single-volatile"], "witness_replay": "witnesses/C04-TV-single-volatile.json"},
 {"property": "C04", "id": "KF-C04-2",
  "what_fails": "vle(T=, H=) / vle(T=, S=) on a stream with exactly one partitioning chemical never store the specified temperature: VLE.set_TH / set_TS return through _set_TH_chemical / _set_TS_chemical before `thermal_condition.T = T`; the stream keeps its old T (e.g. 300 K after vle(T=350, H=...)), so neither T nor the specified H/S is honoured",
  "regions": ["C04-THS-single-volatile"], "witness_replay": "witnesses/C04-THS-single-volatile.json"},
 {"property": "C04", "id": "KF-C04-3",
  "what_fails": "vle(T=, x=) / vle(T=, y=) never store the specified temperature and vle(P=, x=) / vle(P=, y=) never store the specified pressure: VLE.set_Tx / set_Ty assign only thermal_condition.P, set_Px / set_Py only thermal_condition.T; the stream keeps its previous T (P), e.g. 300 K after vle(T=345, x=[0.4, 0.6])",
  "regions": ["C04-xy-spec-not-stored"], "witness_replay": "witnesses/C04-xy-spec-not-stored.json"},
 {"property": "C04", "id": "KF-C04-4",
  "what_fails": "on roughly one in a thousand fault-free vle calls on BRAND-NEW in-domain streams the call returns normally although a tolerance clause is missed by orders of magnitude beyond the solver's stated resolution (T_tol 5e-8 K, P_tol 1 Pa, H_hat_tol/S_hat_tol 1e-6, V_tol/K_tol 1e-6): specified H/S not reproduced (TH/TS near the all-liquid end with a non-condensable gas present: bracket end returned; PS closing lever step first order in S), V specification answered at the bubble clamp (V=0.032 asked, equilibrium V=0.36 at the returned P), results of a feed and of the same feed x k differing by up to 9 % of the feed / 0.35 K (iterations capped at maxiter=20 with checkiter=False return unconverged values silently). Witness: ideal package, ethanol 30.7 + butanol 0.94 + CO2 1.9 + glucose 0.9 kmol/hr, vle(T=380.1, H=4 % of the liquid..vapour span) returns P=553 kPa with H off by 13 kJ/kg (5 %).",
  "regions": ["C04-fresh-baseline-miss"], "witness_replay": "witnesses/C04-fresh-baseline-miss.json"},
 {"property": "C03", "id": "KF-C03-1",
  "what_fails": "vle(T|P=, x|y=) can leave a NEGATIVE phase flow: VLE._lever_rule accepts a split fraction up to 1e-5 outside [0, 1], clips it to the bound and then writes liquid = total - split*F*y, so the phase that should be empty keeps entries of both signs (witness: -1.7e-6 kmol/hr of tetradecanol and +1.7e-6 kmol/hr of octane in 'l' after vle(P=31500, x=[0.888521, 0.111479]))",
  "regions": ["C03-lever-rule-clip"], "witness_replay": "witnesses/C03-lever-rule-clip.json"},
]


def main():
    with open(PATH) as f:
        d = json.load(f)
    ids = {x['id'] for x in d.get('findings', [])} | {x['id'] for x in d.get('fixed', [])}
    added = []
    for n in FINDINGS:
        if n['id'] not in ids:
            d.setdefault('findings', []).append(n)
            added.append(n['id'])
    if added:
        tmp = PATH + '.eqsim.tmp'
        with open(tmp, 'w') as f:
            json.dump(d, f, indent=1)
        os.replace(tmp, PATH)
    print('eqsim findings present; added now:', added)


if __name__ == '__main__':
    main()
