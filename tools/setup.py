#!/venv/bin/python
"""MANIFEST.setup_cmd: build what the checks need from files on disk only (offline)."""
import os, sys, subprocess, time
ROOT = os.path.dirname(os.path.dirname(os.path.abspath(__file__)))
sys.path.insert(0, ROOT)
from sim import env
env.ensure_env()
t0 = time.time()
os.makedirs(os.path.join(ROOT, '.cache', 'numba'), exist_ok=True)
os.makedirs(os.path.join(ROOT, 'replays'), exist_ok=True)
os.makedirs(os.path.join(ROOT, 'evidence'), exist_ok=True)
try:
    import hypothesis  # noqa: F401  (optional)
except Exception:
    pass
tmo = env.import_thermosteam()
print('thermosteam', tmo.__version__, 'from', os.path.dirname(tmo.__file__))
# warm caches (numba JIT to .cache/numba) and run the short determinism self-test
rc = subprocess.call([sys.executable, os.path.join(ROOT, 'selftest', 'determinism.py'), '--short'])
print(f'setup done in {time.time()-t0:.1f}s rc={rc}')
sys.exit(rc)
