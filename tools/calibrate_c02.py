#!/venv/bin/python
"""Calibration batch for C02 tolerances (DESIGN section 9): fault-free, FRESH objects only.
Prints the distribution of |readback - assigned| in units of the solver resolution (C*T_tol)."""
import sys, os, random
sys.path.insert(0, os.path.dirname(os.path.dirname(os.path.abspath(__file__))))
from sim import env
env.ensure_env()
import numpy as np
from engines import streamsim as E
from sim.kernel import Rngs, Violation
N = int(sys.argv[1]) if len(sys.argv) > 1 else 400
res = {'H': [], 'h': [], 'S': [], 'mix': [], 'separate': []}
tcfg = {'steps': (1, 1), 'regions': [], 'fault_rate': 0.0}
for run in range(N):
    rngs = Rngs(99, 'C02', run)
    cfg = E.make_cfg(rngs.cfg, 'C02', tcfg)
    cfg['faults'] = False
    for kind in ('set_energy', 'mix_energy', 'separate_energy'):
        w = E.World('C02', cfg)
        w.H_bound = lambda C, H: float('inf')
        for attempt in range(20):
            ev = getattr(w, 'gen_' + kind)(rngs.args)
            if ev is None:
                continue
            ev['op'] = kind
            if kind == 'set_energy':
                ev['current'] = False
            if w.pre(ev):
                break
        else:
            continue
        w.stats.clear()
        try:
            w.apply(ev)
        except Violation as v:
            if kind == 'set_energy' and v.oracle.startswith('readback'):
                pass
            else:
                print('violation', v.oracle, v.msg[:200])
        for k, v in w.stats.items():
            if k.startswith('cal:'):
                key = k[4:].replace('set_', '')
                res[key].append(v / 1000.0)
for k, v in res.items():
    if v:
        a = np.array(v)
        print(f'{k:9s} n={len(a):4d} median={np.median(a):10.3g} p90={np.percentile(a,90):10.3g} '
              f'p99={np.percentile(a,99):10.3g} max={a.max():10.3g}   (units of C*T_tol, T_tol=1e-6 K)')
