#!/venv/bin/python
"""Regenerate /verif/MANIFEST.json from checks/props.py + checks/manifest_text.py."""
import json, os, sys
ROOT = os.path.dirname(os.path.dirname(os.path.abspath(__file__)))
sys.path.insert(0, ROOT)
from checks.manifest_text import TEXT, NOT_APPLICABLE, PENDING, ENGINES, HOOK_COMMITS
from checks.props import PROPS

checks = []
for pid in sorted(PROPS):
    t = TEXT[pid]
    q = PROPS[pid]['quick']
    th = PROPS[pid]['thorough']
    checks.append({
        'property_id': pid,
        'quick_cmd': f"timeout {int(q['deadline_s'] * 3 + 240)} /venv/bin/python /verif/run_check.py {pid} --tier quick",
        'thorough_cmd': f"timeout {int(th['deadline_s'] * 2 + 600)} /venv/bin/python /verif/run_check.py {pid} --tier thorough",
        'evidence_file': f'/verif/evidence/{pid}.json',
        'replay_cmd_template': '/venv/bin/python /verif/replay.py {path}',
        'engine': PROPS[pid]['engine'],
        'level_claimed': {'category': 'exploration', 'text': t['level'], 'design_ref': t['design_ref']},
        'level_note': t['note'],
        'technique': t['technique'],
    })
na = [{'property_id': k, 'reason': v} for k, v in sorted(NOT_APPLICABLE.items())]
na += [{'property_id': k, 'reason': v} for k, v in sorted(PENDING.items()) if k not in PROPS]
man = {
    'version': 1,
    'setup_cmd': '/venv/bin/python /verif/tools/setup.py',
    'hooks': {
        'guard': 'THERMOSTEAM_VERIF',
        'enable': 'no source hook exists: every seam is a rebindable module attribute, an assignable slot, '
                  'a subclassable base class or a public method, so checks import /repo as it is; '
                  'THERMOSTEAM_VERIF is reserved and unused',
        'baseline_off_cmd': '/venv/bin/python /verif/tools/baseline_check.py',
        'source_commits': HOOK_COMMITS,
        'add_only': True,
    },
    'engines': ENGINES,
    'checks': checks,
    'not_applicable': na,
    'notes': 'Deterministic simulation with fault injection; see DESIGN.md. Exit codes: 0 held, 1 VIOLATION, '
             '2 harness error. VERIF_SEED / VERIF_TIER / VERIF_REPO / VERIF_RUNS / VERIF_DEADLINE honoured.',
}
with open(os.path.join(ROOT, 'MANIFEST.json'), 'w') as f:
    json.dump(man, f, indent=1)
import jsonschema
jsonschema.validate(man, json.load(open('/root/.vp/MANIFEST.schema.json')))
print('MANIFEST.json written:', len(checks), 'checks,', len(na), 'not claimed')
