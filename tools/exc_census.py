#!/venv/bin/python
"""Debug aid: run some generative runs in-process and print one example (event + traceback tail) per
exception category the engine swallowed as 'unsupported'/'exc'."""
import sys, os, traceback, json
sys.path.insert(0, os.path.dirname(os.path.dirname(os.path.abspath(__file__))))
from sim import env
env.ensure_env()
from checks.props import PROPS
from sim.runner import get_engine, open_regions
from sim.kernel import Rngs, Violation
prop = sys.argv[1]; n = int(sys.argv[2]) if len(sys.argv) > 2 else 100
spec = PROPS[prop]; eng = get_engine(spec['engine'])
tcfg = dict(spec['quick']); tcfg['tier'] = 'quick'; tcfg['regions'] = open_regions(prop)
seen = {}
orig_call = eng.StreamWorld.call
def call(self, ev, f):
    r = orig_call(self, ev, f)
    if r[0] == 'exc' and not r[2]:
        e = r[1]
        tb = traceback.extract_tb(e.__traceback__)
        key = (ev.get('op'), type(e).__name__, tb[-1].name, tb[-1].lineno)
        if key not in seen:
            seen[key] = (ev, str(e)[:200], [f'{x.filename.split("/")[-1]}:{x.lineno}:{x.name}' for x in tb[-4:]],
                         {k: (self.pkg_of[ev[k]], type(self.streams[ev[k]]).__name__, tuple(self.streams[ev[k]].phases))
                          for k in ('stream', 'other', 's1', 's2') if k in ev and ev[k] in self.streams},
                         [(self.pkg_of[i], type(self.streams[i]).__name__, tuple(self.streams[i].phases)) for i in ev.get('inlets', []) if i in self.streams])
    return r
eng.StreamWorld.call = call
for run in range(n):
    rngs = Rngs(1, prop, run)
    cfg = eng.make_cfg(rngs.cfg, prop, tcfg)
    w = eng.World(prop, cfg)
    for i in range(cfg['steps']):
        ev = w.gen(rngs)
        try:
            w.apply(ev)
        except Violation as v:
            break
for k, v in sorted(seen.items(), key=str):
    print(k); print('   ', json.dumps(v[0])[:300]); print('   ', v[1]); print('   ', v[2]); print('   ', v[3], v[4])
