#!/venv/bin/python
"""Calibration batch for the C04 tolerance clauses of engines/eqsim.py (DESIGN section 9).

Fault-free, FRESH objects only: every stream of every generated universe receives exactly one
vle call (its solver objects are created by that call), on the tree VERIF_REPO points at.  For
each tolerance clause the residual / reference-scale pairs are collected; the report prints the
count, the largest residuals and what 10 x the maximum would be.  Nothing is judged here.

usage: eqsim_calibrate.py [runs=4000] [seed=4242] [workers=16]
"""
import os, sys, time, json
ROOT = os.path.dirname(os.path.dirname(os.path.abspath(__file__)))
sys.path.insert(0, ROOT)
from sim import env
env.ensure_env()
import random
import multiprocessing as mp
from collections import defaultdict


def work(args):
    seed, runs = args
    from sim.kernel import subseed, Rngs, Violation
    from engines import eqsim
    out = defaultdict(list)
    counts = defaultdict(int)
    for r in runs:
        rng = random.Random(subseed(seed, 'calib-cfg', r))
        cfg = eqsim.make_cfg(rng, 'C04', {'steps': (1, 1), 'twin_runs': 0.5, 'regions': sorted(eqsim.REGIONS)})
        cfg['calib'] = True
        cfg['faults'] = False
        cfg['ftwin_rate'] = 0.
        w = eqsim.EqWorld('C04', cfg)
        w.resid_log = out
        rngs = Rngs(seed, 'calib', r)
        for i, name in enumerate(sorted(w.streams)):
            pair = eqsim.SPEC_PAIRS[(r + i) % 7]
            ev = w.gen_vle(name, {'pair': pair}, {}, rngs.args)
            ev['run'] = r
            if w.in_region(ev) or not w.pre(ev):
                continue
            try:
                obs = w.apply(ev)
            except Violation as v:
                counts['violation:' + v.oracle] += 1
                out['violation:' + v.oracle].append((float('inf'), 0., 0., v.msg))
                continue
            counts['calls'] += 1
            counts['returned' if obs[0] == 'ok' else 'raised'] += 1
        for k, v in w.stats.items():
            if k.startswith('c04:') or k.startswith('exc:') or k.startswith('scale:'):
                counts[k] += v
    top = {c: sorted(v, key=lambda t: -t[0])[:8] for c, v in out.items()}
    n = {c: len(v) for c, v in out.items()}
    return top, n, dict(counts)


def main():
    runs = int(sys.argv[1]) if len(sys.argv) > 1 else 4000
    seed = int(sys.argv[2]) if len(sys.argv) > 2 else 4242
    workers = int(sys.argv[3]) if len(sys.argv) > 3 else 16
    t0 = time.time()
    chunks = [(seed, list(range(i, runs, workers))) for i in range(workers)]
    with mp.get_context('fork').Pool(workers) as pool:
        res = pool.map(work, chunks)
    top = defaultdict(list)
    n = defaultdict(int)
    counts = defaultdict(int)
    for t, m, c in res:
        for k, v in t.items():
            top[k].extend(v)
        for k, v in m.items():
            n[k] += v
        for k, v in c.items():
            counts[k] += v
    print(f'calibration: repo={env.repo_path()} runs={runs} seed={seed} wall={time.time()-t0:.0f}s')
    print('counts:', json.dumps(dict(sorted(counts.items())), indent=0))
    for c in sorted(top):
        best = sorted(top[c], key=lambda t: -t[0])[:6]
        print(f'\n== {c}: n={n[c]}  max residual/scale={best[0][0]:.4g}  -> 10x = {10*best[0][0]:.4g}')
        for ratio, resid, scale, msg in best:
            print(f'   ratio={ratio:.4g} resid={resid:.4g} scale={scale:.4g} | {msg[:230]}')


if __name__ == '__main__':
    main()
