#!/bin/bash
# usage: tools/with_patch.sh [-R] <patch-file|commit> -- <command...>
# Runs <command> with VERIF_REPO pointing at a scratch worktree of /repo's HEAD with the patch applied
# (-R: reverse-applied; a commit id means that commit's diff). The worktree is removed afterwards.
set -u
REV=""
if [ "$1" = "-R" ]; then REV="-R"; shift; fi
WHAT="$1"; shift
[ "$1" = "--" ] && shift
D=$(mktemp -d /tmp/repo_scratch.XXXXXX)
rmdir "$D"
git -C /repo worktree add -q --detach "$D" HEAD || exit 3
if [ -f "$WHAT" ]; then
  git -C "$D" apply $REV "$WHAT" || { git -C /repo worktree remove --force "$D"; exit 3; }
else
  git -C /repo show "$WHAT" | git -C "$D" apply $REV || { git -C /repo worktree remove --force "$D"; exit 3; }
fi
VERIF_REPO="$D" "$@"
RC=$?
git -C /repo worktree remove --force "$D"
exit $RC
