#!/venv/bin/python
"""For each fix commit: reverse-apply it in a scratch worktree, run the property's quick check against
that tree, keep the minimised replay as a regression witness (it must be clean on the repaired tree),
and (re)write the 'fixed' section of known_findings.json."""
import json, os, re, shutil, subprocess, sys
ROOT = os.path.dirname(os.path.dirname(os.path.abspath(__file__)))
FIXES = [
    # commit, property, id, what failed, [extra commits to revert together]
    ('6c95eae', 'C18', 'FX-C18-1', 'unit.outs.pop(i)/unit.ins.pop(i) on a variable-size port list left stream.source/sink set (stream docked but not listed)', []),
    ('be56020', 'C12', 'FX-C12-1', 'a failing Stream.phases assignment (phase not representable in the target set) left the object with class MultiStream and a single-phase indexer; every later read raised AttributeError', []),
    ('01436b4', 'C13', 'FX-C13-1', 'proxy() of a MultiStream lacked _streams/_vle_cache/_lle_cache/_sle_cache: proxy[phase], proxy.vle, proxy.phase=... raised AttributeError and left a MultiStream-class object with a single-phase indexer', ['ba78c8f']),
    ('1c2413b', 'C14', 'FX-C14-1', 'a proxy shared the original\'s property memo dict but kept its own key: after the original recomputed at another state and came back, the proxy returned the value memoised for the other state', []),
    ('b42bf70', 'C11', 'FX-C11-1', 'volumetric view memoised molar volumes keyed on (T,P) only: after stream.phase changed at the same T,P, vol/ivol kept the previous phase\'s volumes', []),
    ('104d0fa', 'C10', 'FX-C10-1', 'the 501st distinct key on one (phases, chemicals) lookup cache raised TypeError: \'int\' object is not iterable (utils.trim_cache: for i in 100), and so did every later new key', []),
    ('765d597', 'C10', 'FX-C10-2', 'after a cross-package mix, imol[tuple of those CAS numbers] raised TypeError: unhashable type: list (index_overlap stored (list, 0) in the shared key cache)', []),
    ('707a873', 'C11', 'FX-C11-2', 'link_with / unlink shared or cleared one _data_cache dict between formerly linked streams: imass / ivol of one stream returned the other stream\'s view (mass != mol x MW)', ['0685bd3']),
    ('afe5ce3', 'C11', 'FX-C11-3', 'in-place phase expansion (copy_like/mix_from from a stream with other phases) kept the cached mass/volume views over the old rows: imass raised IndexError', []),
    ('f2897a6', 'C02', 'FX-C02-1', 'energy-balanced mix_from with the receiver among the inlets summed the inlet enthalpies after overwriting the receiver (wrong T), and its fallback mixed the inlets twice (s += s gave 4x)', []),
    ('9535c77', 'C13', 'FX-C13-2', 'Stream.copy_like(one-phase MultiStream) copied the row positionally (wrong chemicals across packages) and returned before copying T and P', []),
    ('c793589', 'C01', 'FX-C01-1', 'MaterialIndexer.copy_like between different phase sets / packages copied rows positionally or broadcast a shorter source into every row (one-inlet energy-balanced mix gave 4x the material)', []),
    ('2ef595f', 'C12', 'FX-C12-2', 'per-phase streams ms[phase] kept pointing at the old rows after ms.phases=..., link_with or unlink: a re-obtained phase view was not live and MultiStream.split_to split stale data', []),
    ('e4a7001', 'C13', 'FX-C13-3', 'Stream / MultiStream constructors always stored {} for characterization_factors', []),
    ('e122a89', 'C13', 'FX-C13-4', 'pickling / set_data of a MultiStream holding one phase raised AttributeError / IndexError', []),
    ('1981ed1', 'C13', 'FX-C13-5', 'MultiStream.__init__ did not create .equations, so ms.proxy() raised AttributeError', []),
    ('14f3259', 'C13', 'FX-C13-6', 'original.unlink() left the original and its proxy sharing the same indexer (all flow data still shared)', []),
    ('aa658e3', 'C02', 'FX-C02-2', 'mix_from ignored the heat input Q when exactly one inlet was non-empty', []),
    ('66bf34d', 'C02', 'FX-C02-3', 'the S setter\'s recovery branch assigned the solved temperature to self.S instead of self.T', []),
    ('6c87722', 'C05', 'FX-C05-1', 'a reaction defined on another property package applied to a multi-phase stream left the flows in the reaction\'s chemical order (MaterialIndexer.reset_chemicals never re-installed the restored container)', []),
    ('8aa7cd0', 'C20', 'FX-C20-1', 'adjust_moisture_content(strict=False) with too little water created material (subtracted a negative shortfall from the retentate)', []),
    ('1204686', 'C20', 'FX-C20-2', 'partition() with phase fraction >= 1 did not rewrite bottom[IDs]: a re-used bottom outlet kept stale flows and top = feed - bottom went negative without a report', []),
]


def run(cmd, **kw):
    return subprocess.run(cmd, capture_output=True, text=True, **kw)


def main():
    only = set(sys.argv[1:])
    kfp = os.path.join(ROOT, 'known_findings.json')
    kf = json.load(open(kfp))
    fixed = {f['id']: f for f in kf.get('fixed', [])}
    for commit, prop, fid, what, extra in FIXES:
        if only and fid not in only:
            continue
        wname = f'witnesses/{fid}.json'
        d = subprocess.check_output(['mktemp', '-d', '/tmp/repo_fx.XXXXXX'], text=True).strip()
        os.rmdir(d)
        run(['git', '-C', '/repo', 'worktree', 'add', '-q', '--detach', d, 'HEAD'])
        ok = True
        for c in [commit] + extra:
            diff = subprocess.check_output(['git', '-C', '/repo', 'show', c], text=True)
            p = subprocess.run(['git', '-C', d, 'apply', '-R', '--3way'], input=diff, text=True, capture_output=True)
            if p.returncode != 0:
                p = subprocess.run(['git', '-C', d, 'apply', '-R'], input=diff, text=True, capture_output=True)
            if p.returncode != 0:
                print(fid, 'cannot reverse-apply', c, p.stderr[:200])
                ok = False
        witness = None
        if ok:
            env = dict(os.environ, VERIF_REPO=d)
            for seed in (None, '101', '202'):
                if seed:
                    env['VERIF_SEED'] = seed
                p = run([sys.executable, os.path.join(ROOT, 'run_check.py'), prop, '--tier', 'quick'], env=env, cwd=ROOT)
                m = re.search(r'VIOLATION property=\S+ replay=(\S+)', p.stdout)
                if m:
                    witness = m.group(1)
                    break
        run(['git', '-C', '/repo', 'worktree', 'remove', '--force', d])
        entry = {'property': prop, 'id': fid, 'commit': commit,
                 'entry': f'fixed: property={prop} {commit} {what}', 'witness_replay': None}
        if witness and os.path.exists(witness):
            shutil.copy(witness, os.path.join(ROOT, wname))
            # must be clean on the repaired tree
            p = run([sys.executable, '-m', 'sim.replay', wname], cwd=ROOT)
            if p.returncode == 0:
                entry['witness_replay'] = wname
                print(fid, 'witness ok', wname)
            else:
                os.remove(os.path.join(ROOT, wname))
                print(fid, 'witness still violates on the repaired tree - not kept:', p.stdout[:200])
        else:
            print(fid, 'no violation found with the fix reverted (detected by another route or masked)')
        fixed[fid] = entry
        kf['fixed'] = [fixed[k] for k in sorted(fixed)]
        json.dump(kf, open(kfp, 'w'), indent=1)


main()
