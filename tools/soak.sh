#!/bin/bash
# usage: tools/soak.sh <PROP> <seed-from> <seed-to> [tier]   - runs the check for each seed, prints non-clean results
P=$1; A=$2; B=$3; T=${4:-quick}
for sd in $(seq $A $B); do
  out=$(VERIF_SEED=$sd timeout 1200 /venv/bin/python /verif/run_check.py $P --tier $T 2>&1)
  rc=$?
  if [ $rc -ne 0 ]; then echo "== $P seed=$sd exit=$rc"; echo "$out" | grep -E "VIOLATION|oracle=|HARNESS|^done" | cut -c1-400 | head -6
    mkdir -p /tmp/soak; for f in /verif/replays/$P-$sd-*.json; do [ -f "$f" ] && cp "$f" /tmp/soak/; done
  fi
done
echo "soak $P seeds $A..$B finished"
