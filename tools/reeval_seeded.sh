#!/bin/bash
# re-evaluate every seeded change against the current /verif and /repo (refreshes seeded/*/meta.json)
cd /verif
for d in seeded/*/; do id=$(basename $d); p=${id%-*}; extra=""; [ "$id" = "C12-1" ] && extra="--extra-props C11"
  /venv/bin/python tools/eval_seeded.py $id $p seeded/$id/patch.diff seeded/$id/demo.py $extra 2>&1 | grep -E '"id"|"caught"' | tr -d '\n'; echo; done
