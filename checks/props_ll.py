"""Check specifications of the eqsim_ll engine (C08 bubble/dew points, C15 LLE/SLE); merged into
checks.props.PROPS."""

COMPONENTS_LL = {
    'real': ['thermosteam.equilibrium: BubblePoint, DewPoint, vle_domain, LLE, SLE, LLECache/SLECache, '
             'activity / fugacity / Poynting model classes', 'Stream.bubble_point_at_T/P, dew_point_at_T/P, '
             'MultiStream.lle / .sle accessors, reset_cache, pickling',
             'flexsolve solvers (pass-through seam S3; IQ_interpolation additionally counted by a pass-through '
             'probe of the engine)', 'Chemical.Psat of the engine\'s own chemical objects and the gamma slot of the '
             'cached BubblePoint instances (pass-through fault seams installed by the engine)',
             'SLE._solve_x (pass-through recorder of the solubility it returns)'],
    'stub': ['unit operations (tasks issuing the public-API calls)', 'scheduler / PRNG'],
}

PROPS_LL = {
    'C08': {
        'engine': 'eqsim_ll',
        'quick': {'runs': 14000, 'steps': (10, 30), 'deadline_s': 90, 'chunk': 50, 'seed': 8,
                  'fault_rate': 0.6},
        'thorough': {'runs': 400000, 'steps': (10, 40), 'deadline_s': 900, 'chunk': 200, 'seed': 1008,
                     'fault_rate': 0.6},
        'rule': ('one evaluation = one simulated run: 10-30 operations (point query, stream-level query, T<->P '
                 'round trip, bubble-vs-dew ordering, z vs k*z, permuted chemical list / permuted package, '
                 'single component, stream edit) issued through 2-4 streams and directly on the process-global '
                 'BubblePoint/DewPoint instances of one package (1-5 of 14 volatile chemicals, ideal or Dortmund '
                 'activity coefficients); in 60 % of the runs half of the operations carry one injected failure '
                 '(primary solver / inner solver raising at its 1st-3rd call, Psat or gamma raising once). '
                 'HONEST SCOPE: the instances keep no state between calls (checked by reading: their slots hold '
                 'models and bounds only), so there is no history dimension; what the simulation adds is the '
                 'recovery path (IQ_interpolation fallback of solve_Ty/Py/Tx/Px after the primary solver raised), '
                 'everything else is seeded input sampling evaluated with the same oracle. '
                 'distinct = distinct (package size, activity model, operation kind, bubble/dew, given T or P, '
                 'direct/stream, zero/trace/bulk pattern of the composition, fault kind+site+exception, outcome '
                 'class) tuples after a step; non-trivial = run with at least one query operation'),
        'assumptions': ['the composition implied by modified Raoult\'s law is recomputed with own instances of '
                        'thermo.Gamma/Phi/PCF and Chemical.Psat called directly',
                        'tolerances = solver resolution (T_tol, P_tol, ytol) times local slope, frozen at >= 10x the '
                        'largest value of a fault-free batch of 66176 judged operations (numbers in the engine)',
                        'results whose solved T or P leaves the property\'s window (260-480 K inside every Psat '
                        'range, 5e3-3e6 Pa) get no verdict', 'a faulted call may raise; a call that raises without '
                        'an injected fault is counted (natural_exception), not judged',
                        'seeded sampling, not exhaustive'],
        'components': COMPONENTS_LL,
    },
    'C15': {
        'engine': 'eqsim_ll',
        'quick': {'runs': 2000, 'steps': (6, 16), 'deadline_s': 120, 'chunk': 10, 'seed': 15, 'fault_rate': 0.4,
                  'min_fraction': 0.05},
        'thorough': {'runs': 60000, 'steps': (6, 20), 'deadline_s': 900, 'chunk': 25, 'seed': 1015,
                     'fault_rate': 0.4},
        'rule': ('one evaluation = one simulated run on 3-5 persistent MultiStreams of one package: decanter runs '
                 '(70 %; Water + butanol / ethyl acetate / ethanol / octane / hexane, 2-5 chemicals present, one of the '
                 'three LLE methods) issue lle(T, top_chemical, use_cache, single_loop) calls at temperatures above, '
                 'below and equal to the one the stream\'s solver remembers, composition edits, reset_cache and '
                 'pickled restarts, each lle call being probed by one of: fresh twin (brand-new stream, same '
                 'contents), cache vs no cache and k-scaled twin (both by replaying the stream\'s recorded API '
                 'history on new objects), plus equal activities and top-chemical ordering; crystalliser runs (30 %; '
                 'tetradecanol / naphthalene+biphenyl / benzoic acid+phenol in 1-3 solvents) issue '
                 'sle(solute, T[, solubility]) calls, edits, restarts. 40 % of the runs inject solver failures '
                 '(flx.aitken / fixed_point / wegstein raising at the 1st-3rd call). '
                 'distinct = distinct abstract universe states after a step (family, package, method, per stream: '
                 'number of chemicals per phase and the class of its last operation - one/two liquids, solver had '
                 'memory, probed T above/below/equal the remembered T, use_cache, probe kind, top chemical named, '
                 'fault fired, memory two-phase; SLE: pure/mixture, given/computed, above/below Tm, none/all '
                 'dissolved, history length); non-trivial = run with at least one lle/sle call'),
        'assumptions': ['activities x*gamma are evaluated with an own thermo.Gamma instance over the chemicals present',
                        'two portions of one and the same liquid (compositions equal within 1e-6, or a phase below '
                        '1e-12 of the feed) count as one liquid; without a named top chemical the two labels may be '
                        'swapped when splits are compared', '"the solubility it computed" is the value SLE._solve_x '
                        'returned during the call (pass-through recorder)', 'SLE history independence is not promised '
                        'by the property: disagreement with a fresh twin is a statistic only',
                        'a call that raises without an injected fault is judged differentially against a brand-new '
                        'stream (same exception class = unsupported input)', 'seeded sampling, not exhaustive'],
        'components': COMPONENTS_LL,
    },
}
