"""Check specifications of the eqsim engine (C03 conservation in phase equilibrium, C04 flash post-conditions)."""

COMPONENTS_EQ = {
    'real': ['thermosteam MultiStream with its per-stream VLE / LLE / SLE solver objects (VLECache.retrieve), '
             'Stream.vlle, BubblePoint / DewPoint, activity-coefficient, fugacity and Poynting objects',
             'thermosteam mixture property models (pass-through seam S2: k-th H / S / Cn evaluation raises)',
             'flexsolve solvers (pass-through seam S3: chosen aitken / IQ_interpolation / aitken_secant / wegstein / '
             'fixed_point call raises)', 'pickle round trip of whole streams (restart)'],
    'stub': ['unit operations (flash / recycle / campaign / decanter / crystalliser / VLLE / editor tasks issuing one '
             'public-API call per step)', 'scheduler / PRNG'],
}

_RULE = ('one evaluation = one simulated history of 15-40 public-API calls issued by 5-11 stub unit operations '
         '(flash loops over the specification pairs TP PV TV PH PS TH TS Tx Px Ty Py, recycle loops, campaigns that '
         'add / remove chemicals, decanter lle, crystalliser sle, vlle, editors: flow / chemical edits, scaling, '
         'all-into-one-phase, phase-set changes, T / P writes, pickled restart, reset_cache) on 3-6 PERSISTENT '
         'MultiStream objects over 2-3 property packages (C1-C4 alcohols, C6-C8 alkanes + aromatics, water + organics, '
         'its ideal twin; gas-, liquid- and solid-locked chemicals), in 40 % of the histories with model / solver '
         'faults armed inside single equilibrium calls; distinct = distinct abstract universe states seen after a '
         'step (per stream: package, phase set, which phases hold material, which chemicals are non-zero, which of '
         'its VLE / LLE / SLE solver objects exist (warm) or not (fresh), last specification pair); non-trivial = '
         'history with at least one equilibrium call (counter mechanism_ops counts them; returned_on_warm_solver '
         'counts the calls that returned from an aged solver object)')

PROPS_EQ = {
    'C03': {
        'engine': 'eqsim',
        'quick': {'runs': 2000, 'steps': (15, 40), 'deadline_s': 80, 'chunk': 8, 'seed': 3},
        'thorough': {'runs': 60000, 'steps': (15, 60), 'deadline_s': 900, 'chunk': 20, 'seed': 1003},
        'rule': _RULE,
        'assumptions': ['oracle arithmetic is dense NumPy on images of imol.data taken before / after each call',
                        'a gas-only chemical that the caller had put into a phase row the VLE does not pool '
                        '(L, s) is only required not to spread further (see engine docstring)',
                        'seeded sampling inside the stated input domain, not exhaustive'],
        'components': COMPONENTS_EQ,
    },
    'C04': {
        'engine': 'eqsim',
        'quick': {'runs': 1500, 'steps': (15, 40), 'deadline_s': 150, 'chunk': 8, 'seed': 4},
        'thorough': {'runs': 40000, 'steps': (15, 60), 'deadline_s': 900, 'chunk': 20, 'seed': 1004},
        'rule': _RULE + ('; C04 additionally replays every history on a twin universe with all flows x k in half '
                         'of the runs (scaling clause)'),
        'assumptions': ['reference values: mixture.xH / xS on dense rows, Chemical.Psat, thermo.Gamma objects, '
                        'LiquidFugacities / GasFugacities, an in-harness Rachford-Rice bisection and an in-harness '
                        'gamma-phi successive substitution (no thermosteam solver code)',
                        'tolerances = frozen multiples (engines/eqsim.py MULT, calibration numbers next to them) of '
                        'the solver constants propagated to each residual; the entropy models\' own numerical '
                        'resolution (quantised liquid entropies of the bundled data) is part of the S bounds',
                        'a tolerance clause missed by the aged stream AND by a brand-new stream given the same '
                        'observable input is the listed baseline finding (region C04-fresh-baseline-miss), a clause '
                        'missed by the aged stream only is a violation - unless the passive solver seam saw the '
                        'outermost solver or the last inner composition solve of that call leave unconverged '
                        '(iteration cap / growing-error exit, silent in thermosteam): listed finding KF-C04-5 '
                        '(region C04-silent-iteration-cap, about 4 % of calls)',
                        'scaling clause of calls whose pressure is an output (T-V, T-H, T-S): when the two pressures '
                        'lie within 2 x P_tol of each other the flow bound is widened by the measured sensitivity '
                        'd(flows)/dP (two brand-new T-P flashes around the returned pressure) x 2 x P_tol',
                        'seeded sampling inside the stated input domain, not exhaustive'],
        'components': COMPONENTS_EQ,
    },
}
