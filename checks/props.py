"""Per-property check specifications (engine, tiers, evidence rule)."""

COMPONENTS_NET = {
    'real': ['thermosteam.network (AbstractUnit, AbstractStream, StreamSequence, Inlets/Outlets, '
             'pipes, Connection, Network)', 'thermosteam.utils (registry, stream filters)'],
    'stub': ['unit operations: subclasses of AbstractUnit with chosen port counts and a seeded '
             '__hash__, no behaviour of their own', 'streams: AbstractStream subclass with seeded '
             '__hash__ and a settable F_mass', 'scheduler / PRNG'],
}

COMPONENTS_STREAM = {
    'real': ['thermosteam Stream / MultiStream / indexers / sparse arrays / ThermalCondition / Chemicals',
             'thermosteam mixture and chemical property models (pass-through seam, S2)',
             'flexsolve solvers (pass-through seam, S3)'],
    'stub': ['unit operations (tasks issuing public-API calls)', 'scheduler / PRNG'],
}

COMPONENTS_SPARSE = {
    'real': ['thermosteam.base.sparse (SparseVector, SparseLogicalVector, SparseArray, sparse, sparse_vector, '
             'sparse_array, nonzero_items)'],
    'stub': ['nothing of the library is stubbed; reference model = NumPy arrays (one 1-d mirror cell per stored '
             'row, shared between aliasing objects)', 'scheduler / PRNG'],
}

PROPS = {
    'C09': {
        'engine': 'sparsesim',
        'quick': {'runs': 50000, 'steps': (10, 30), 'deadline_s': 60, 'chunk': 100, 'seed': 9},
        'thorough': {'runs': 800000, 'steps': (10, 40), 'deadline_s': 600, 'chunk': 500, 'seed': 1009},
        'rule': ('one evaluation = one simulated history of 10-30 operations on a universe of 3-8 live sparse '
                 'objects (vectors, logical vectors, 2-d arrays up to 3 x 6, aliasing rows included), every '
                 'step checked against NumPy mirrors on ALL live objects; distinct = distinct abstract '
                 'universe states (per object: kind, dtype, shape, sign pattern of the entries, read-only '
                 'flags, alias structure) seen after a step; non-trivial = at least one write / aliasing '
                 'operation executed'),
        'assumptions': ['NumPy is the reference; shapes compared modulo leading length-1 axes; divisors '
                        'containing 0 and in-place forms NumPy itself refuses are not generated; steps with '
                        'non-finite NumPy results are executed but only the representation invariant is '
                        'checked; multi-term sums are compared within a rounding bound (summation order is '
                        'unspecified in NumPy)',
                        'index / operand forms outside what tests/test_sparse.py exercises (negative and '
                        'out-of-range indices, boolean mask combined with a non-slice index, 0-d bool '
                        'ndarray operands, column-broadcast (m,1) operands, mixed bool/float lists, zero-row '
                        'arrays) are outside the generated domain', 'seeded sampling, not exhaustive'],
        'components': COMPONENTS_SPARSE,
    },
    'C18': {
        'engine': 'netsim',
        'quick': {'runs': 20000, 'steps': (20, 60), 'deadline_s': 60, 'chunk': 200, 'seed': 18},
        'thorough': {'runs': 400000, 'steps': (20, 80), 'deadline_s': 600, 'chunk': 500, 'seed': 1018},
        'rule': ('one evaluation = one simulated history of rewiring operations (each generated only '
                 'when its stated precondition holds) on 2-6 stub units and 3-10 streams; distinct = '
                 'distinct abstract wiring states (unit kinds, which ports are occupied, stream '
                 'docking pattern, unit-to-unit edges) seen after a step; non-trivial = after at '
                 'least one executed rewiring operation'),
        'assumptions': ['preconditions are evaluated on the real port state (equal to the model '
                        'state while the invariant has held)', 'seeded sampling, not exhaustive'],
        'components': COMPONENTS_NET,
    },
    'C19': {
        'engine': 'netsim',
        'quick': {'runs': 30000, 'steps': (4, 10), 'deadline_s': 90, 'chunk': 100, 'seed': 19},
        'thorough': {'runs': 150000, 'steps': (6, 16), 'deadline_s': 600, 'chunk': 200, 'seed': 1019},
        'rule': ('one evaluation = one random connected flowsheet (2-10 units, 1-3 ports, 0-3 back '
                 'edges) rebuilt under several (unit-list permutation, seeded hash table) pairs; '
                 'distinct = distinct (edge set, resulting flattened path); non-trivial = at least '
                 'one Network.from_units call executed'),
        'assumptions': ['cyclic/acyclic decided by an in-harness Tarjan SCC', 'seeded sampling'],
        'components': COMPONENTS_NET,
    },
    **{p: {
        'engine': 'streamsim',
        'quick': {'runs': 12000, 'steps': (20, 50), 'deadline_s': 90, 'chunk': 50, 'seed': int(p[1:])},
        'thorough': {'runs': 100000, 'steps': (20, 80), 'deadline_s': 700, 'chunk': 100, 'seed': 1000 + int(p[1:])},
        'rule': ('one evaluation = one simulated history of public-API calls issued by stub unit operations on '
                 '3-7 (+ derived) real streams over three property packages; distinct = distinct abstract '
                 'universe states after a step (per stream: origin, single/multi, phase set, which phases hold '
                 'material, property memo warm/cold, which cached views exist); non-trivial = history '
                 'containing at least one operation of the property mechanism'),
        'assumptions': ['oracle arithmetic is dense NumPy written in the harness; thermodynamic reference values '
                        'come from Chemical / mixture model objects called directly (not through the stream)',
                        'seeded sampling, not exhaustive'],
        'components': COMPONENTS_STREAM,
    } for p in ('C01', 'C02', 'C10', 'C11', 'C12', 'C13', 'C14')},
    'C05': {
        'engine': 'rxnsim',
        'quick': {'runs': 3000, 'steps': (15, 40), 'deadline_s': 60, 'chunk': 50, 'seed': 5},
        'thorough': {'runs': 150000, 'steps': (15, 60), 'deadline_s': 600, 'chunk': 200, 'seed': 1005},
        'rule': ('one evaluation = one simulated history in which reused, edited reaction objects (single / parallel / '
                 'series / system, mol and wt basis, phase-tagged or not, defined on a package listing the chemicals '
                 'in another order) are applied to 2-5 shared streams and to bare arrays, interleaved with view '
                 'warming, flow edits, proxies and pickled restarts; distinct = distinct abstract states (per stream: '
                 'class, phases, package, cached views, which phases hold material; per reaction: kind, basis, '
                 'tagging, package, size); non-trivial = at least one reaction applied'),
        'assumptions': ['balanced stoichiometries are drawn from 10 hand-checked base reactions and their rational '
                        'combinations; atom table (C,H,O) is the harness own', 'seeded sampling'],
        'components': {'real': ['thermosteam.reaction (Reaction, ParallelReaction, SeriesReaction, ReactionSystem, '
                                'ReactionItem)', 'Stream / MultiStream / indexers / mass views'],
                       'stub': ['reactor unit operations (tasks)', 'scheduler / PRNG']},
    },
    'C20': {
        'engine': 'sepsim',
        'quick': {'runs': 2500, 'steps': (12, 35), 'deadline_s': 70, 'chunk': 25, 'seed': 20},
        'thorough': {'runs': 120000, 'steps': (12, 50), 'deadline_s': 600, 'chunk': 100, 'seed': 1020},
        'rule': ('one evaluation = one simulated history of separator tasks re-running the helpers (mix_and_split, '
                 'moisture adjustment, partition, phase_split, chemical_splits, material_balance, vle / lle wrappers '
                 'with a persistent warm multi_stream) on the same 4-7 outlet streams with leftovers, strict on/off '
                 'and model faults inside the wrappers; distinct = distinct abstract states (per stream: class, '
                 'phases, which chemicals are present; which persistent multi-streams exist); non-trivial = at least '
                 'one helper call'),
        'assumptions': ['seeded sampling inside the stated input domain', 'oracle arithmetic is dense NumPy'],
        'components': {'real': ['thermosteam.separations', 'Stream / MultiStream / VLE / LLE solvers',
                                'mixture models and flexsolve (pass-through seams)'],
                       'stub': ['separator unit operations (tasks)', 'scheduler / PRNG']},
    },
}

# eqsim_ll (C08 bubble/dew points, C15 LLE/SLE): specifications kept in checks/props_ll.py
from checks.props_ll import PROPS_LL  # noqa: E402
PROPS.update(PROPS_LL)

# eqsim (C03 conservation in phase equilibrium, C04 flash post-conditions): checks/props_eq.py
from checks.props_eq import PROPS_EQ  # noqa: E402
PROPS.update(PROPS_EQ)
