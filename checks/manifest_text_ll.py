"""MANIFEST texts of the eqsim_ll engine (C08, C15); merged into checks.manifest_text."""

_NOTE = ('trusted base: the in-harness oracle and reference computations (own Gamma/Phi/PCF instances, '
         'Chemical.Psat called directly, dense NumPy), CPython, NumPy; seeded search over histories/faults - '
         'a clean batch is evidence, not proof')

ENGINE_LL = {
    'name': 'eqsim_ll', 'path': '/verif/engines/eqsim_ll.py', 'serves_properties': ['C08', 'C15'],
    'kind_free_text': 'C08: bubble/dew point queries issued through several streams and directly on the process-global '
                      'cached BubblePoint/DewPoint instances with solver failures (flexsolve call raising at its '
                      '1st-3rd call) and model failures (Psat / gamma raising once) armed inside single calls, so that '
                      'the IQ_interpolation recovery path of solve_Ty/Py/Tx/Px runs; defining-equation, round-trip, '
                      'ordering, scaling and permutation oracles recomputed independently. C15: lle / sle calls '
                      're-run on 3-5 PERSISTENT MultiStreams whose per-stream LLE/SLE solver objects remember the '
                      'previous solution, at temperatures above/below/equal the remembered one, after composition '
                      'edits, reset_cache and pickled restarts, with and without cache reuse; equal-activity, '
                      'fresh-twin, cache-vs-no-cache and k-scaled-twin oracles (twins are built by replaying the '
                      'stream\'s recorded API history on brand-new objects), top-chemical ordering, SLE bounds',
}

TEXT_LL = {
    'C08': {
        'level': 'seeded exploration: 10-30 point queries per run (direct and through 2-4 streams sharing the cached '
                 'solver instances; 1-5 of 14 volatile chemicals, ideal and Dortmund packages, zero/trace components, '
                 'k*z, permuted lists and permuted packages, single component), 60 % of the runs with injected '
                 'solver/model failures that force the never-tested IQ_interpolation fallback. Every call that returns '
                 'is held to the same equations with and without the failure: sum of the fractions implied by modified '
                 'Raoult\'s law = 1 (tolerance = solver resolution x local slope, calibrated), normalised output, '
                 'T<->P inverse, T_bubble <= T_dew, P_dew <= P_bubble, single component = Tsat/Psat, invariance to '
                 'scaling and permutation. Honest scope: the instances hold no state between calls, so the only thing '
                 'the simulation adds over input sampling is the recovery path (probe: faults that fired AND the call '
                 'returned through the fallback); the rest is seeded sampling evaluated by the same oracle.',
        'design_ref': '5/C08',
        'note': _NOTE + '; results whose solved T/P leave the stated window get no verdict; five listed known '
                'findings exclude: un-normalised z (except solve_Py), dew solves on activity packages (un-faulted and '
                'faulted), operations in which an IQ_interpolation call ran out of its 50 iterations (observed on the '
                'execution), bubble-T solves with water + C5-C8 alkane on activity packages',
        'technique': 'deterministic simulation: shared solver instances + injected solver/model failures + '
                     'defining-equation oracle through an independent path + ddmin replay',
    },
    'C15': {
        'level': 'seeded exploration of call histories on persistent streams: each stream owns one LLE and one SLE '
                 'solver object that remembers K, phi, T, composition (LLE) / index bookkeeping (SLE) and decides per '
                 'call whether to reuse it. Decanter tasks issue 1-4 earlier lle calls at other temperatures (higher '
                 'AND lower) or after composition edits, then a probed call with use_cache True/False, every method '
                 '(pseudo equilibrium, shgo, differential evolution), top chemicals, scale factors 1e-3..1e3, '
                 'reset_cache, pickled restarts and solver failures; crystalliser tasks do the same with sle (given '
                 'and computed solubility, pure solute above/below Tm). Oracles: equal activities x*gamma in both '
                 'liquids, aged solver = brand-new stream, use_cache=True = use_cache=False, proportionality in a '
                 'k-scaled twin universe, top-chemical mass-fraction ordering; SLE: only the solute moves, dissolved '
                 '<= min(present, solubility-implied), pure solute all liquid above Tm / all solid below. Right level '
                 'because the property itself quantifies over sequences of earlier calls on the same stream.',
        'design_ref': '5/C15',
        'note': _NOTE + '; three listed known findings exclude: the equal-activity clause and both history clauses '
                'for the default method (K is never updated), cache reuse at a temperature lower than the remembered '
                'one, the equal-activity clause for shgo / differential evolution; SLE history independence is not '
                'promised by the property and is reported as a statistic only',
        'technique': 'deterministic simulation: aged per-stream solver objects + history-replay twins (fresh, '
                     'no-cache, k-scaled) + restart / solver-failure faults + ddmin replay',
    },
}
