"""Texts for MANIFEST.json (kept next to the check specifications)."""

HOOK_COMMITS = []

ENGINES = [
    {'name': 'netsim', 'path': '/verif/engines/netsim.py', 'serves_properties': ['C18', 'C19'],
     'kind_free_text': 'seeded histories of rewiring operations / seeded flowsheets under seeded hash order and '
                       'unit-list permutations against the real thermosteam.network; invariant oracles'},
    {'name': 'sparsesim', 'path': '/verif/engines/sparsesim.py', 'serves_properties': ['C09'],
     'kind_free_text': 'seeded histories of construction / indexing / arithmetic / in-place / reduction / '
                       'conversion operations on a universe of aliasing sparse objects against NumPy mirror '
                       'arrays; refinement oracle on every live object after every step, representation '
                       'invariant, must-reject events (read-only, shape mismatch), differential judgement of '
                       'exceptions on freshly built objects'},
    {'name': 'eqsim', 'path': '/verif/engines/eqsim.py', 'serves_properties': ['C03', 'C04'],
     'kind_free_text': 'seeded histories of phase-equilibrium calls (vle over eleven specification pairs, lle, sle, '
                       'vlle) re-run on 3-6 PERSISTENT MultiStream objects whose per-stream solver objects warm-start '
                       'from earlier calls, interleaved with composition / phase-set / T-P edits, scaling, pickled '
                       'restarts and reset_cache by other stub unit operations, with model (k-th H/S/Cn evaluation) '
                       'and solver (chosen flexsolve call) faults armed inside single calls; conservation oracle '
                       '(C03) and defining-equation oracles through independent paths incl. an in-harness '
                       'Rachford-Rice / gamma-phi flash and a flows-x-k twin universe (C04)'},
]

NOT_APPLICABLE = {
    'C06': 'pure closed-form function of stoichiometry, conversion and tabulated Hf plus one temperature solve; '
           'no cache, sharing, retry, schedule or nondeterminism of its own for a simulator to drive '
           '(its only stateful ingredient, the memoised H, is the subject of C14)',
    'C07': 'algebraic/derivative identities of pure functions of (phase, T, P); nothing to schedule, fault or '
           'replay - the property text itself points at symbolic proof',
    'C16': 'activity-coefficient models are pure functions of (x, T) on immutable tables; limits, Gibbs-Duhem, '
           'permutation invariance and argument purity are input/output relations with no history or fault seam',
    'C17': 'value-object algebra of reactions: each identity is a one- or two-step input/output relation with '
           'no shared mutable state, fault path or interleaving involved',
}

PENDING = {p: 'not claimed yet: simulator engine for this property is still under construction (see DESIGN.md)'
           for p in ['C01', 'C02', 'C05', 'C08', 'C10', 'C11', 'C12', 'C13', 'C14',
                     'C15', 'C20']}

_COMMON_NOTE = ('trusted base: the in-harness oracle and reference computations, CPython, NumPy; seeded search '
                'over histories/faults - a clean batch is evidence, not proof')

TEXT = {
    'C09': {
        'level': 'seeded exploration of operation histories (<= 30 steps) over a universe of 3-8 live sparse '
                 'vectors, logical vectors and 2-d arrays (shapes <= 3 x 6, value alphabet with 0, a, -a, 1/4, 3, '
                 '1e-300, 1e300, booleans) including aliasing rows, self-operands (a += a, a[:] = a, '
                 'a.mix_from([a, b, a])), length-1 broadcasts, every operator and every pairing of operand kinds; '
                 'after every step the dense image of EVERY live object is compared with its NumPy mirror, the '
                 'result with NumPy, and the representation invariant (no stored zero, keys in range) is '
                 'evaluated; read-only writes and shape mismatches must raise and change nothing. Right level '
                 'because the objects are mutable, alias each other and every in-place kernel has to '
                 're-establish the invariant: failures need a history, not a single call.',
        'design_ref': '5/C09', 'note': _COMMON_NOTE + '; forms the library\'s own tests do not exercise are '
                 'outside the generated domain (listed in the evidence assumptions); the exhaustive-for-size-3 '
                 'clause of the property is sampled, not enumerated',
        'technique': 'deterministic simulation: seeded operation histories on aliasing objects + NumPy refinement '
                     'oracle per step + must-reject fault events + ddmin replay',
    },
    'C18': {
        'level': 'seeded exploration of rewiring histories (all listed operations, each used inside its stated '
                 'precondition) on stub units with fixed and variable port counts; the connection invariant is '
                 'checked on every unit and stream after every operation; failures are minimised (ddmin) and '
                 'replayed in a fresh interpreter. Right level because the invariant links two objects and '
                 'breaks only under particular operation orders.',
        'design_ref': '5/C18', 'note': _COMMON_NOTE + '; preconditions evaluated on the real port state',
        'technique': 'deterministic simulation: seeded operation histories + per-step invariant oracle + ddmin replay',
    },
    'C19': {
        'level': 'seeded exploration of random connected flowsheets (acyclic and with 1-3 back edges), each '
                 'rebuilt under several unit-list permutations and seeded __hash__ tables (the only real '
                 'nondeterminism source of the package: id()-hashed sets in network.py); path/recycle oracle '
                 'with an in-harness SCC computation.',
        'design_ref': '5/C19', 'note': _COMMON_NOTE + '; closed loops that no feed enters are outside the '
                 'generated domain',
        'technique': 'deterministic simulation: seeded hash-order / permutation injection + order oracle',
    },
}

_STREAM_NOTE = _COMMON_NOTE + ('; operations that raise on fresh objects in the same state are counted as unsupported '
                               'input, not violations (differential-exception rule, DESIGN 2.4)')
TEXT.update({
    'C01': {
        'level': 'seeded exploration of histories of mix / sum / split / separate / copy_flow / scale / += / -= on '
                 'shared, aged, linked and proxied streams over three property packages (reordered chemicals, CAS '
                 'remapping through the shared, evicting lookup cache), with cache pressure, pickled restarts and '
                 'injected model/solver failures inside energy-balanced mixes; per-operation dense refinement oracle '
                 'computed from a pre-operation snapshot.',
        'design_ref': '5/C01', 'note': _STREAM_NOTE,
        'technique': 'deterministic simulation: seeded task interleavings + fault injection + dense refinement oracle',
    },
    'C10': {
        'level': 'seeded exploration of lookup histories (every key form, 0-700 distinct keys so that the 100-entry '
                 'and 500-entry caches fill and evict, cross-package insertions into the same cache, restarts, refused set_alias calls with a taken name); '
                 'every read/write is compared with the harness own name->position table and with a cold twin '
                 'indexer (history independence).',
        'design_ref': '5/C10', 'note': _STREAM_NOTE,
        'technique': 'deterministic simulation: cache-pressure histories + reference table + fresh-twin oracle',
    },
    'C11': {
        'level': 'seeded exploration of interleavings of view writes/reads (mol/mass/vol, 9 units of measure) with '
                 'T, P, phase(s), link/unlink, refused links between stream classes, proxy, copy_like, restart; after every step mass = mol*MW, vol = '
                 'mol*1000*V_i(phase,T,P) (V_i from the Chemical objects directly) and the totals are checked on '
                 'every touched stream and every stream that may share data with it.',
        'design_ref': '5/C11', 'note': _STREAM_NOTE,
        'technique': 'deterministic simulation: seeded task interleavings + per-step invariant oracle',
    },
    'C12': {
        'level': 'seeded exploration of conversion histories (phases=, reduce_phases, as_stream, solver accessors, '
                 'get_data/set_data, writes through re-obtained phase views and through the parent) interleaved with '
                 'other mutators; totals, T, P, per-label rows and view liveness checked after each conversion.',
        'design_ref': '5/C12', 'note': _STREAM_NOTE,
        'technique': 'deterministic simulation: seeded histories + snapshot refinement oracle',
    },
    'C13': {
        'level': 'seeded exploration of copy/proxy/flow_proxy/link_with (all flag subsets)/unlink/pickle histories (including links that must be refused and copies of per-phase views) with mutations by other owners in between; refinement against an explicit alias graph (who '
                 'shares flows, T/P, phase with whom): after every operation every stream outside the sharing '
                 'closure of the written streams is unchanged and everything advertised as shared is equal.',
        'design_ref': '5/C13', 'note': _STREAM_NOTE + '; re-linking a stream that is bound to a proxy is not generated',
        'technique': 'deterministic simulation: two-owner histories + alias-graph refinement oracle',
    },
    'C14': {
        'level': 'seeded exploration of interleavings (<= 50 steps) of property reads with every public mutator, by '
                 'several owners of shared streams (multi-step revisit tasks return a stream to an earlier state); '
                 'every read is compared with a freshly built stream in the same observable state.',
        'design_ref': '5/C14', 'note': _STREAM_NOTE,
        'technique': 'deterministic simulation: seeded task interleavings + fresh-twin oracle',
    },
})
for _p in ('C01', 'C10', 'C11', 'C12', 'C13', 'C14'):
    PENDING.pop(_p, None)
ENGINES.append({'name': 'streamsim', 'path': '/verif/engines/streamsim.py',
                'serves_properties': ['C01', 'C10', 'C11', 'C12', 'C13', 'C14'],
                'kind_free_text': 'seeded histories of public-API calls by stub unit operations on shared real streams, '
                                  'with model/solver fault injection, cache pressure and pickled restarts'})

TEXT.update({
    'C02': {
        'level': 'seeded exploration of energy-balanced mixes (receiver among the inlets, proxies, Q), separate_out and '
                 'H / h / S assignments on liquid and gas streams inside 250-500 K, with model and solver failures '
                 'injected INSIDE the temperature solve so that the setters\' phase-flip recovery and mix_from\'s '
                 'fallback run (faults may persist for the whole operation so that the library retry fails too), plus refused assignments of unreachable energies (bad_energy) and gas streams of a Peng-Robinson package (pressure-dependent enthalpy, per-call mixture state); enthalpy/entropy are recomputed through the mixture model on dense rows (never the '
                 'stream memo) and compared within bounds calibrated on fresh objects (tools/calibrate_c02.py).',
        'design_ref': '5/C02', 'note': _STREAM_NOTE + '; tolerances: H,h 100 x C*T_tol, S 2.5e4 x C*T_tol/T (10 x calibration max)',
        'technique': 'deterministic simulation: fault injection in solver/model seams + defining-equation oracle',
    },
    'C05': {
        'level': 'seeded exploration of reactor histories: reused and edited reaction objects (single / parallel / '
                 'series / system, mol and wt basis, phase-tagged, defined on a package with another chemical order) '
                 'applied to shared streams with warm mass/volume views, proxies, restarts, and to bare arrays; copies of reactions and of set items edited in place afterwards (derive_rxn), exactly stoichiometric feeds at full conversion (stoich_feed: the negligible-negative clean-up branch, judged strictly < 0); '
                 'dense reference arithmetic, mass and (C,H,O) balance with the harness own atom table, over-conversion '
                 'must raise, package and mass view restored after each normal return.',
        'design_ref': '5/C05', 'note': _COMMON_NOTE + '; nothing is demanded after a raising reaction (statistics only)',
        'technique': 'deterministic simulation: seeded reuse/edit histories + dense refinement oracle',
    },
})
for _p in ('C02', 'C05'):
    PENDING.pop(_p, None)
for _e in ENGINES:
    if _e['name'] == 'streamsim' and 'C02' not in _e['serves_properties']:
        _e['serves_properties'].insert(1, 'C02')
ENGINES.append({'name': 'rxnsim', 'path': '/verif/engines/rxnsim.py', 'serves_properties': ['C05'],
                'kind_free_text': 'seeded histories of reaction objects applied to shared streams and arrays'})

TEXT['C20'] = {
    'level': 'seeded exploration of separator histories: the helpers are re-run on the same outlet streams over changing '
             'feeds (leftovers from earlier runs), with strict on/off, a persistent warm multi_stream for the vle/lle '
             'wrappers and model failures injected inside them; after each call that returns normally: outlets sum '
             'to inlets per chemical, no negative flow unless infeasibility was reported (exception or warning), '
             'achieved partition coefficients up to a common factor, requested moisture fraction, phase routing, '
             'splits x mixed = first stream, balance residual zero.',
    'design_ref': '5/C20', 'note': _COMMON_NOTE + '; moisture helpers only on single-phase outlets; partition outlets are '
                                    'reserved streams written only by partition with one chemical assignment per run',
    'technique': 'deterministic simulation: re-run histories with dirty outlets + fault injection + balance oracle',
}
PENDING.pop('C20', None)
ENGINES.append({'name': 'sepsim', 'path': '/verif/engines/sepsim.py', 'serves_properties': ['C20'],
                'kind_free_text': 'seeded histories of separation helper calls on persistent outlet streams'})

# eqsim (C03, C04)
TEXT.update({
    'C03': {
        'level': 'seeded exploration of histories (15-40 public-API calls) in which flash, recycle, campaign, decanter, '
                 'crystalliser, VLLE and editor tasks share 3-6 persistent MultiStream objects, so that every '
                 'equilibrium call after the first runs on solver objects (VLE/LLE/SLE created once per stream) '
                 'that were warm-started, left stale by edits that do / do not change the set of non-zero '
                 'chemicals, dropped by restarts, or left half-updated by a model / solver fault injected inside '
                 'the previous call; after every call that returns, per-chemical totals over phases, sign of every '
                 'stored phase flow and the side of phase-locked chemicals are checked on dense images. Right '
                 'level because the anchored code moves material between rows in place, keeps index tables '
                 'across calls and has recovery branches that only failures reach: conservation has to survive '
                 'orders of calls and failed iterations, which single fresh-stream examples cannot show.',
        'design_ref': '5/C03', 'note': _COMMON_NOTE + '; calls that raise are counted, never judged (the property '
                 'speaks about calls that return); inputs left outside the stated flow range by a failed call are '
                 'repaired by the generator before the next judged call',
        'technique': 'deterministic simulation: seeded task interleavings on persistent solver state + fault injection '
                     'inside solver calls + per-step conservation oracle + ddmin replay',
    },
    'C04': {
        'level': 'same simulated histories as C03 (persistent warm / stale / fault-recovered VLE solver objects); '
                 'after every vle call that returns: specified T / P stored exactly, specified H / S reproduced '
                 'through mixture.xH / xS on dense rows, specified V met within the propagated solver resolution '
                 'against an in-harness gamma-phi flash, bubble / dew boundaries and iso-fugacity '
                 '(LiquidFugacities / GasFugacities) for homologous families, Raoult / Rachford-Rice split for '
                 'the ideal package, and proportionality against a twin universe with all flows x k that lives '
                 'through the same history. The relations themselves are input-output equations; what the '
                 'simulation decides is whether they keep holding when the answer comes from an aged solver '
                 '(initial guesses, index tables, cached bubble / dew objects from earlier calls) or from a '
                 'recovery branch - tolerance clauses are therefore judged differentially against a brand-new '
                 'stream given the same observable input.',
        'design_ref': '5/C04', 'note': _COMMON_NOTE + '; bounds are frozen multiples of the solver constants '
                 '(calibration numbers in engines/eqsim.py); misses that a fresh stream shows as well are reported '
                 'once as a known finding with a witness, not per occurrence; TH/TS energy clauses need an '
                 'independent flash and are evaluated for the family and ideal packages only',
        'technique': 'deterministic simulation: seeded task interleavings on persistent solver state + fault injection '
                     'inside solver calls + defining-equation oracles via independent paths + scaled twin universe '
                     '+ fresh-stream differential + ddmin replay',
    },
})
for _p in ('C03', 'C04'):
    PENDING.pop(_p, None)

# eqsim_ll (C08, C15): texts kept in checks/manifest_text_ll.py
from checks.manifest_text_ll import TEXT_LL, ENGINE_LL  # noqa: E402
TEXT.update(TEXT_LL)
if not any(e['name'] == ENGINE_LL['name'] for e in ENGINES):
    ENGINES.append(ENGINE_LL)
for _p in TEXT_LL:
    PENDING.pop(_p, None)
