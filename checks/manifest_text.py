"""Texts for MANIFEST.json (kept next to the check specifications)."""

HOOK_COMMITS = []

ENGINES = [
    {'name': 'netsim', 'path': '/verif/engines/netsim.py', 'serves_properties': ['C18', 'C19'],
     'kind_free_text': 'seeded histories of rewiring operations / seeded flowsheets under seeded hash order and '
                       'unit-list permutations against the real thermosteam.network; invariant oracles'},
]

NOT_APPLICABLE = {
    'C06': 'pure closed-form function of stoichiometry, conversion and tabulated Hf plus one temperature solve; '
           'no cache, sharing, retry, schedule or nondeterminism of its own for a simulator to drive '
           '(its only stateful ingredient, the memoised H, is the subject of C14)',
    'C07': 'algebraic/derivative identities of pure functions of (phase, T, P); nothing to schedule, fault or '
           'replay - the property text itself points at symbolic proof',
    'C16': 'activity-coefficient models are pure functions of (x, T) on immutable tables; limits, Gibbs-Duhem, '
           'permutation invariance and argument purity are input/output relations with no history or fault seam',
    'C17': 'value-object algebra of reactions: each identity is a one- or two-step input/output relation with '
           'no shared mutable state, fault path or interleaving involved',
}

PENDING = {p: 'not claimed yet: simulator engine for this property is still under construction (see DESIGN.md)'
           for p in ['C01', 'C02', 'C03', 'C04', 'C05', 'C08', 'C09', 'C10', 'C11', 'C12', 'C13', 'C14',
                     'C15', 'C20']}

_COMMON_NOTE = ('trusted base: the in-harness oracle and reference computations, CPython, NumPy; seeded search '
                'over histories/faults - a clean batch is evidence, not proof')

TEXT = {
    'C18': {
        'level': 'seeded exploration of rewiring histories (all listed operations, each used inside its stated '
                 'precondition) on stub units with fixed and variable port counts; the connection invariant is '
                 'checked on every unit and stream after every operation; failures are minimised (ddmin) and '
                 'replayed in a fresh interpreter. Right level because the invariant links two objects and '
                 'breaks only under particular operation orders.',
        'design_ref': '5/C18', 'note': _COMMON_NOTE + '; preconditions evaluated on the real port state',
        'technique': 'deterministic simulation: seeded operation histories + per-step invariant oracle + ddmin replay',
    },
    'C19': {
        'level': 'seeded exploration of random connected flowsheets (acyclic and with 1-3 back edges), each '
                 'rebuilt under several unit-list permutations and seeded __hash__ tables (the only real '
                 'nondeterminism source of the package: id()-hashed sets in network.py); path/recycle oracle '
                 'with an in-harness SCC computation.',
        'design_ref': '5/C19', 'note': _COMMON_NOTE + '; closed loops that no feed enters are outside the '
                 'generated domain',
        'technique': 'deterministic simulation: seeded hash-order / permutation injection + order oracle',
    },
}
