#!/venv/bin/python
"""Replay a recorded trace from any working directory:  /venv/bin/python /verif/replay.py <file> [--json]
exit 1: the recorded violation reproduces; exit 0: the trace runs clean; exit 2: harness problem."""
import os
import sys

sys.path.insert(0, os.path.dirname(os.path.abspath(__file__)))
from sim.replay import main  # noqa: E402

if __name__ == '__main__':
    sys.exit(main(sys.argv))
